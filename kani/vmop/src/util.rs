#[cfg(not(kani))]
use crate::kani;
use fidget_core::compiler::{RegOp, RegTape, SsaOp, SsaTape};
use fidget_core::eval::{BulkEvaluator, Function, TracingEvaluator};
use fidget_core::var::{Var, VarMap};
use fidget_core::vm::{Choice, GenericVmFunction, GenericVmTape, VmData};

pub const N: usize = 255;
pub type F = GenericVmFunction<N>;

pub fn any_f32() -> f32 {
    f32::from_bits(kani::any())
}
pub fn same_bits(a: f32, b: f32) -> bool {
    (a.is_nan() && b.is_nan()) || a.to_bits() == b.to_bits()
}

/// Builds a function from a register program given in evaluation order
pub fn func(ops_eval_order: &[RegOp], slots: u32, nvars: usize, nout: usize, nchoice: usize) -> F {
    let mut ops: Vec<RegOp> = ops_eval_order.to_vec();
    ops.reverse();
    let asm = RegTape::verif_from_ops(ops, slots);
    // the interpreters only read the counters of the SSA tape
    let ssa = SsaTape { tape: vec![], choice_count: nchoice, output_count: nout };
    let mut vars = VarMap::new();
    if nvars > 0 {
        vars.insert(Var::X);
    }
    if nvars > 1 {
        vars.insert(Var::Y);
    }
    if nvars > 2 {
        vars.insert(Var::Z);
    }
    F::from(VmData::<N>::verif_from_parts(ssa, asm, vars))
}

/// Runs the point evaluator and the float-slice evaluator (slice length 2,
/// second lane = the inputs under test, first lane arbitrary) and returns the
/// single output of each plus the point trace
pub fn run2(f: &F, vars: &[f32]) -> (f32, f32, Option<Choice>) {
    let t = f.point_tape(Default::default());
    let mut e = F::new_point_eval();
    let (o, tr) = e.eval(&t, vars).unwrap();
    let p = o[0];
    let c = tr.map(|t| t.as_slice()[0]);
    let t = f.float_slice_tape(Default::default());
    let mut e = F::new_float_slice_eval();
    let cols: Vec<[f32; 2]> = vars.iter().map(|&v| [any_f32(), v]).collect();
    let refs: Vec<&[f32]> = cols.iter().map(|c| c.as_slice()).collect();
    let b = e.eval(&t, &refs).unwrap();
    let s = b[0][1];
    (p, s, c)
}

#[macro_export]
macro_rules! vm_unary {
    ($name:ident, $op:expr, $sem:expr) => {
        harness!($name, {
            let f = func(&[RegOp::Input(0, 0), $op(1, 0), RegOp::Output(1, 0)], 2, 1, 1, 0);
            let x = any_f32();
            let (p, s, _) = run2(&f, &[x]);
            let want = $sem.eval(x);
            assert!(same_bits(p, want), "point interpreter arm differs from the opcode");
            assert!(same_bits(s, want), "float-slice interpreter arm differs from the opcode");
            kani::cover!(!want.is_nan());
            std::mem::forget(f);
        });
    };
}
#[macro_export]
macro_rules! vm_imm {
    ($name:ident, $op:expr, $sem:expr, $imm_lhs:expr, $nchoice:expr) => {
        harness!($name, {
            let k = any_f32();
            let f = func(&[RegOp::Input(0, 0), $op(1, 0, k), RegOp::Output(1, 0)], 2, 1, 1, $nchoice);
            let x = any_f32();
            let (p, s, _) = run2(&f, &[x]);
            let want = if $imm_lhs { $sem.eval(k, x) } else { $sem.eval(x, k) };
            assert!(same_bits(p, want), "point interpreter arm differs from the opcode");
            assert!(same_bits(s, want), "float-slice interpreter arm differs from the opcode");
            kani::cover!(!want.is_nan());
            std::mem::forget(f);
        });
    };
}
#[macro_export]
macro_rules! vm_bin {
    ($name:ident, $op:expr, $sem:expr, $nchoice:expr) => {
        harness!($name, {
            let f = func(&[RegOp::Input(0, 0), RegOp::Input(1, 1), $op(2, 0, 1), RegOp::Output(2, 0)], 3, 2, 1, $nchoice);
            let x = any_f32();
            let y = any_f32();
            let (p, s, _) = run2(&f, &[x, y]);
            let want = $sem.eval(x, y);
            assert!(same_bits(p, want), "point interpreter arm differs from the opcode");
            assert!(same_bits(s, want), "float-slice interpreter arm differs from the opcode");
            kani::cover!(!want.is_nan());
            std::mem::forget(f);
        });
    };
}
