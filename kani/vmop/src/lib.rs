//! C01 VM-OP: every interpreter arm of the point and float-slice evaluators
//! computes the opcode's f32 function (`BinaryOpcode::eval`/`UnaryOpcode::eval`)
//! bit-for-bit, for fully symbolic operands and immediates.
#![allow(unused, static_mut_refs)]

#[cfg(not(kani))]
#[path = "../../shim.rs"]
pub mod kani_shim;
#[cfg(not(kani))]
pub use kani_shim as kani;

#[path = "../../kernels/src/stubs.rs"]
pub mod stubs;
#[path = "../../kernels/src/macros.rs"]
mod macros;
pub mod util;
mod ops;
mod special;
