//! Data-movement opcodes and multi-op tapes
#[cfg(not(kani))]
use crate::kani;
use crate::harness;
use crate::util::*;
use fidget_core::compiler::RegOp;

harness!(c01_q_vm_CopyReg_CopyImm_Input_Output, {
    let k = any_f32();
    // out0 = copy(x), out1 = k, out2 = y
    let f = func(
        &[
            RegOp::Input(0, 0),
            RegOp::Input(3, 1),
            RegOp::CopyReg(1, 0),
            RegOp::CopyImm(2, k),
            RegOp::Output(1, 0),
            RegOp::Output(2, 1),
            RegOp::Output(3, 2),
        ],
        4, 2, 3, 0,
    );
    let (x, y) = (any_f32(), any_f32());
    use fidget_core::eval::{Function, TracingEvaluator};
    let t = f.point_tape(Default::default());
    let mut e = F::new_point_eval();
    let (o, tr) = e.eval(&t, &[x, y]).unwrap();
    assert!(o.len() == 3);
    assert!(same_bits(o[0], x) && same_bits(o[1], k) && same_bits(o[2], y));
    assert!(tr.is_none());
    kani::cover!(true);
    std::mem::forget(f);
});

harness!(c01_q_vm_Load_Store, {
    // r0 = x; mem[300] = r0; r0 = y; r1 = mem[300]; out = r1 - r0  (x - y)
    let f = func(
        &[
            RegOp::Input(0, 0),
            RegOp::Store(0, 300),
            RegOp::Input(0, 1),
            RegOp::Load(1, 300),
            RegOp::SubRegReg(2, 1, 0),
            RegOp::Output(2, 0),
        ],
        301, 2, 1, 0,
    );
    let (x, y) = (any_f32(), any_f32());
    let (p, s, _) = run2(&f, &[x, y]);
    assert!(same_bits(p, x - y) && same_bits(s, x - y));
    kani::cover!(!p.is_nan());
    std::mem::forget(f);
});

// ---- experiments (cost probes) ---------------------------------------------
fn rs_new() -> std::collections::hash_map::RandomState {
    // any fixed state: the map is never hashed into in these harnesses
    unsafe { std::mem::zeroed() }
}

#[cfg(kani)]
#[kani::proof]
#[kani::unwind(8)]
fn exp1_point_only() {
    use fidget_core::eval::{Function, TracingEvaluator};
    let f = func(&[RegOp::Input(0, 0), RegOp::NegReg(1, 0), RegOp::Output(1, 0)], 2, 1, 1, 0);
    let x = any_f32();
    let t = f.point_tape(Default::default());
    let mut e = F::new_point_eval();
    let (o, _) = e.eval(&t, &[x]).unwrap();
    assert!(same_bits(o[0], -x));
    std::mem::forget(e);
    std::mem::forget(t);
    std::mem::forget(f);
}

#[cfg(kani)]
#[kani::proof]
#[kani::unwind(8)]
#[kani::stub(std::collections::hash_map::RandomState::new, rs_new)]
fn exp2_point_only_rs() {
    use fidget_core::eval::{Function, TracingEvaluator};
    let f = func(&[RegOp::Input(0, 0), RegOp::NegReg(1, 0), RegOp::Output(1, 0)], 2, 1, 1, 0);
    let x = any_f32();
    let t = f.point_tape(Default::default());
    let mut e = F::new_point_eval();
    let (o, _) = e.eval(&t, &[x]).unwrap();
    assert!(same_bits(o[0], -x));
    std::mem::forget(e);
    std::mem::forget(t);
    std::mem::forget(f);
}
