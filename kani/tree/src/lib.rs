//! C12 (Tree Eq / Hash): structurally equal trees hash equally, whatever the
//! sharing of subtrees (`Arc`s) inside them.  The tree *shapes* are concrete
//! (Kani cannot make heap shapes symbolic within reach); the constants are
//! symbolic over all 2^32 bit patterns (so +-0 and every NaN payload, which
//! `==` identifies, must hash alike) and so is the choice of operator.
#![allow(unused)]

#[cfg(not(kani))]
#[path = "../../shim.rs"]
pub mod kani_shim;
#[cfg(not(kani))]
pub use kani_shim as kani;

use fidget_core::context::Tree;
use std::hash::{Hash, Hasher};

/// A deterministic, cheap hasher (rotate-xor over the byte stream): equal
/// streams give equal results, which is all the implication needs.
struct H(u64);
impl Hasher for H {
    fn write(&mut self, b: &[u8]) {
        let mut i = 0;
        while i < b.len() {
            self.0 = self.0.rotate_left(5) ^ (b[i] as u64);
            i += 1;
        }
    }
    fn finish(&self) -> u64 {
        self.0
    }
}
fn h(t: &Tree) -> u64 {
    let mut s = H(0x9E37);
    t.hash(&mut s);
    s.finish()
}
fn any_f32() -> f32 {
    f32::from_bits(kani::any())
}
fn bin(k: u8, a: Tree, b: Tree) -> Tree {
    match k % 3 {
        0 => a + b,
        1 => a.min(b),
        _ => a * b,
    }
}

/// shared subtree used twice vs. two separately built copies
#[cfg_attr(kani, kani::proof)]
#[cfg_attr(not(kani), test)]
#[cfg_attr(kani, kani::unwind(12))]
fn c12_q_hash_shared_vs_copies() {
    let (c1, c2, c3) = (any_f32(), any_f32(), any_f32());
    let (k1, k2): (u8, u8) = (kani::any(), kani::any());
    let s = bin(k1, Tree::x(), Tree::constant(c1));
    let a = bin(k2, s.clone(), s);
    let b = bin(k2, bin(k1, Tree::x(), Tree::constant(c2)), bin(k1, Tree::x(), Tree::constant(c3)));
    let eq = a == b;
    if eq {
        assert!(h(&a) == h(&b), "structurally equal trees hash differently");
    }
    kani::cover!(eq);
    kani::cover!(!eq);
    kani::cover!(eq && c1.to_bits() != c2.to_bits());
    std::mem::forget(a);
    std::mem::forget(b);
}

/// equality itself is structural: same shape and constants (+-0 and NaNs
/// identified) <=> equal, independent of sharing
#[cfg_attr(kani, kani::proof)]
#[cfg_attr(not(kani), test)]
#[cfg_attr(kani, kani::unwind(12))]
fn c12_q_eq_structural() {
    let (c1, c2) = (any_f32(), any_f32());
    let k: u8 = kani::any();
    let s = Tree::y().sqrt();
    let a = bin(k, s.clone(), bin(0, s, Tree::constant(c1)));
    let b = bin(k, Tree::y().sqrt(), bin(0, Tree::y().sqrt(), Tree::constant(c2)));
    let same_const = (c1.is_nan() && c2.is_nan()) || c1 == c2;
    assert!((a == b) == same_const, "tree equality is not structural equality");
    kani::cover!(a == b);
    kani::cover!(a != b);
    std::mem::forget(a);
    std::mem::forget(b);
}
