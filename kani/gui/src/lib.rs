//! C18: one interaction step of View2 / View3 from an arbitrary state.
//!
//! Exactness regime: scales and zoom factors are powers of two, centres and
//! cursor positions lie on the lattice k/4, and rotations are quarter turns
//! (the libm stubs are constrained to return 0 / +-1), so every intermediate is
//! exact in f32 and "the point under the cursor does not move" is an exact
//! statement.  Outside: general angles and values (rounding).
#![allow(unused, static_mut_refs)]

#[cfg(not(kani))]
#[path = "../../shim.rs"]
pub mod kani_shim;
#[cfg(not(kani))]
pub use kani_shim as kani;

#[path = "../../kernels/src/stubs.rs"]
pub mod stubs;
#[path = "../../kernels/src/macros.rs"]
mod macros;

use fidget_gui::{View2, View3};
use nalgebra::{Point2, Point3, Vector2, Vector3};

fn latx(kmax: i16) -> f32 {
    let k: i16 = kani::any();
    kani::assume(k >= -kmax && k <= kmax);
    (k as f32) * 0.25
}
fn pow2() -> f32 {
    let e: u8 = kani::any();
    match e % 5 {
        0 => 0.25,
        1 => 0.5,
        2 => 1.0,
        3 => 2.0,
        _ => 4.0,
    }
}

// quarter-turn libm: sin/cos in {0, 1, -1} with sin^2 + cos^2 = 1 (the yaw
// and pitch angles themselves stay symbolic)
static mut TRIG: [(u32, f32, f32); 4] = [(0, 0.0, 0.0); 4];
static mut TRIG_N: usize = 0;
fn trig(x: f32) -> (f32, f32) {
    unsafe {
        let mut i = 0;
        while i < 4 {
            if i < TRIG_N && TRIG[i].0 == x.to_bits() {
                return (TRIG[i].1, TRIG[i].2);
            }
            i += 1;
        }
        let q: u8 = kani::any();
        let (s, c) = if x == 0.0 {
            (0.0, 1.0)
        } else {
            match q % 4 {
                0 => (0.0, 1.0),
                1 => (1.0, 0.0),
                2 => (0.0, -1.0),
                _ => (-1.0, 0.0),
            }
        };
        assert!(TRIG_N < 4);
        TRIG[TRIG_N] = (x.to_bits(), s, c);
        TRIG_N += 1;
        (s, c)
    }
}
pub fn qsin(x: f32) -> f32 {
    trig(x).0
}
pub fn qcos(x: f32) -> f32 {
    trig(x).1
}
pub fn qsqrt(x: f32) -> f32 {
    // only sqrt(1) occurs (normalising a unit axis)
    if x == 1.0 { 1.0 } else { crate::stubs::sqrt(x) }
}
pub fn qsincos(x: f32) -> (f32, f32) {
    trig(x)
}

macro_rules! gui_harness {
    ($name:ident, $body:block) => {
        #[cfg_attr(kani, kani::proof)]
        #[cfg_attr(not(kani), test)]
        #[cfg_attr(kani, kani::unwind(18))]
        #[cfg_attr(kani, kani::stub(f32::sin, crate::qsin))]
        #[cfg_attr(kani, kani::stub(f32::cos, crate::qcos))]
        #[cfg_attr(kani, kani::stub(f32::sin_cos, crate::qsincos))]
        #[cfg_attr(kani, kani::stub(f32::sqrt, crate::qsqrt))]
        fn $name() $body
    };
}

fn same2(a: Point2<f32>, b: Point2<f32>) -> bool {
    a.x == b.x && a.y == b.y
}
fn same3(a: Point3<f32>, b: Point3<f32>) -> bool {
    a.x == b.x && a.y == b.y && a.z == b.z
}

gui_harness!(c18_x_view2_zoom_keeps_cursor_point, {
    let mut v = View2::from_center_and_scale(Vector2::new(latx(7), latx(7)), pow2());
    let cursor = Point2::new(latx(7), latx(7));
    let amount = pow2();
    let before = v.transform_point(&cursor);
    let (c0, s0) = v.components();
    let changed = v.zoom(amount, Some(cursor));
    let after = v.transform_point(&cursor);
    assert!(same2(before, after), "zoom moved the model point under the cursor");
    let (c1, s1) = v.components();
    assert!(s1 == s0 * amount, "zoom must multiply the scale");
    if c1 == c0 && s1 == s0 {
        assert!(!changed, "changed reported for a bit-identical view");
    }
    kani::cover!(changed && c1 != c0);
});

gui_harness!(c18_x_view2_drag_keeps_grabbed_point, {
    let mut v = View2::from_center_and_scale(Vector2::new(latx(7), latx(7)), pow2());
    let start = Point2::new(latx(7), latx(7));
    let pos = Point2::new(latx(7), latx(7));
    let grabbed = v.transform_point(&start);
    let (c0, s0) = v.components();
    let h = v.begin_translate(start);
    let changed = v.translate(&h, pos);
    let now = v.transform_point(&pos);
    assert!(same2(grabbed, now), "the grabbed model point is no longer under the cursor");
    let (c1, s1) = v.components();
    assert!(s1 == s0, "panning changed the scale");
    assert!(changed == (c1 != c0), "changed flag does not match the view");
    kani::cover!(changed);
});

gui_harness!(c18_x_view3_zoom_keeps_cursor_point, {
    let yaw: f32 = kani::any();
    let pitch: f32 = kani::any();
    kani::assume(yaw.is_finite() && pitch.is_finite());
    let mut v = View3::from_components(Vector3::new(latx(7), latx(7), latx(7)), pow2(), yaw, pitch);
    let cursor = Point3::new(latx(7), latx(7), 0.0);
    let amount = pow2();
    let before = v.transform_point(&cursor);
    let (c0, s0, y0, p0) = v.components();
    let _ = v.zoom(amount, Some(cursor));
    let after = v.transform_point(&cursor);
    assert!(same3(before, after), "zoom moved the model point under the cursor (3D)");
    let (c1, s1, y1, p1) = v.components();
    assert!(s1 == s0 * amount && y1.to_bits() == y0.to_bits() && p1.to_bits() == p0.to_bits());
    kani::cover!(c1 != c0);
});

gui_harness!(c18_x_view3_drag_keeps_grabbed_point, {
    let yaw: f32 = kani::any();
    let pitch: f32 = kani::any();
    kani::assume(yaw.is_finite() && pitch.is_finite());
    let mut v = View3::from_components(Vector3::new(latx(7), latx(7), latx(7)), pow2(), yaw, pitch);
    let start = Point3::new(latx(7), latx(7), 0.0);
    let pos = Point3::new(latx(7), latx(7), 0.0);
    let grabbed = v.transform_point(&start);
    let (c0, s0, y0, p0) = v.components();
    let h = v.begin_translate(start);
    let changed = v.translate(&h, pos);
    let now = v.transform_point(&pos);
    assert!(same3(grabbed, now), "the grabbed model point is no longer under the cursor (3D)");
    let (c1, s1, y1, p1) = v.components();
    assert!(s1 == s0 && y1.to_bits() == y0.to_bits() && p1.to_bits() == p0.to_bits(), "panning changed scale or rotation");
    assert!(changed == (c1 != c0));
    kani::cover!(changed);
});

gui_harness!(c18_q_view3_rotate, {
    let yaw: f32 = kani::any();
    let pitch: f32 = kani::any();
    kani::assume(yaw.abs() < std::f32::consts::TAU && pitch >= 0.0 && pitch <= std::f32::consts::PI);
    let c = Vector3::new(kani::any(), kani::any(), kani::any());
    let s: f32 = kani::any();
    let mut v = View3::from_components(c, s, yaw, pitch);
    // screen positions are integers mapped to [-1, 1]: any finite start/end in [-2, 2]
    let (sx, sy, px, py): (f32, f32, f32, f32) = (kani::any(), kani::any(), kani::any(), kani::any());
    kani::assume(sx.abs() <= 2.0 && sy.abs() <= 2.0 && px.abs() <= 2.0 && py.abs() <= 2.0);
    let h = v.begin_rotate(Point3::new(sx, sy, 0.0));
    let changed = v.rotate(&h, Point3::new(px, py, 0.0));
    let (c1, s1, y1, p1) = v.components();
    assert!(c1.x.to_bits() == c.x.to_bits() && c1.y.to_bits() == c.y.to_bits() && c1.z.to_bits() == c.z.to_bits(), "rotate moved the centre");
    assert!(s1.to_bits() == s.to_bits(), "rotate changed the scale");
    assert!(p1 >= 0.0 && p1 <= std::f32::consts::PI, "pitch left [0, pi]");
    assert!(y1.abs() < std::f32::consts::TAU, "yaw left (-tau, tau)");
    assert!(changed == (y1 != yaw || p1 != pitch), "changed flag does not match the view");
    kani::cover!(changed);
});

// zoom without a cursor position (no matrices involved): scale is multiplied,
// centre untouched, and `changed` must be false when nothing changed
gui_harness!(c18_q_view2_zoom_flag, {
    let c = Vector2::new(kani::any(), kani::any());
    let s: f32 = kani::any();
    let amount: f32 = kani::any();
    kani::assume(amount > 0.0 && amount.is_finite()); // exp2 of a finite scroll amount
    kani::assume(!s.is_nan()); // a NaN scale is not reachable with finite positive zoom factors
    let mut v = View2::from_center_and_scale(c, s);
    let changed = v.zoom(amount, None);
    let (c1, s1) = v.components();
    assert!(c1.x.to_bits() == c.x.to_bits() && c1.y.to_bits() == c.y.to_bits(), "zoom without a cursor moved the centre");
    assert!(s1.to_bits() == (s * amount).to_bits() || (s1.is_nan() && (s * amount).is_nan()));
    if s1.to_bits() == s.to_bits() {
        assert!(!changed, "changed reported for a bit-identical view");
    }
    kani::cover!(changed && s1 != s);
});
gui_harness!(c18_q_view3_zoom_flag, {
    let c = Vector3::new(kani::any(), kani::any(), kani::any());
    let s: f32 = kani::any();
    let (yaw, pitch): (f32, f32) = (kani::any(), kani::any());
    let amount: f32 = kani::any();
    kani::assume(amount > 0.0 && amount.is_finite());
    kani::assume(!s.is_nan());
    let mut v = View3::from_components(c, s, yaw, pitch);
    let changed = v.zoom(amount, None);
    let (c1, s1, y1, p1) = v.components();
    assert!(c1.x.to_bits() == c.x.to_bits() && c1.y.to_bits() == c.y.to_bits() && c1.z.to_bits() == c.z.to_bits());
    assert!(y1.to_bits() == yaw.to_bits() && p1.to_bits() == pitch.to_bits(), "zoom changed the rotation");
    if s1.to_bits() == s.to_bits() {
        assert!(!changed, "changed reported for a bit-identical view");
    }
    kani::cover!(changed && s1 != s);
});
