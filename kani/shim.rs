//! Native stand-in for the `kani` crate, used to *replay* a counterexample
//! found by the solver against the real code in an ordinary `cargo test` run.
//!
//! `VERIF_REPLAY_VALS` holds the concrete values in `kani::any()` call order
//! as `;`-separated hex strings (little-endian bytes), exactly as printed by
//! `cargo kani --concrete-playback=print`.
use std::cell::RefCell;

thread_local! {
    static VALS: RefCell<Option<Vec<Vec<u8>>>> = RefCell::new(None);
    static ASSUME_FAILED: RefCell<bool> = RefCell::new(false);
}

fn next_bytes(n: usize) -> Vec<u8> {
    VALS.with(|v| {
        let mut v = v.borrow_mut();
        if v.is_none() {
            let s = std::env::var("VERIF_REPLAY_VALS").unwrap_or_default();
            let mut out: Vec<Vec<u8>> = s
                .split(';')
                .filter(|t| !t.is_empty())
                .map(|t| {
                    (0..t.len() / 2)
                        .map(|i| u8::from_str_radix(&t[2 * i..2 * i + 2], 16).unwrap())
                        .collect()
                })
                .collect();
            out.reverse();
            *v = Some(out);
        }
        let mut b = v.as_mut().unwrap().pop().unwrap_or_default();
        b.resize(n, 0);
        b
    })
}

pub trait Arb: Sized {
    fn arb() -> Self;
}
macro_rules! arb_int {
    ($($t:ty),*) => {$(
        impl Arb for $t {
            fn arb() -> Self {
                let b = next_bytes(std::mem::size_of::<$t>());
                <$t>::from_le_bytes(b.try_into().unwrap())
            }
        }
    )*};
}
arb_int!(u8, i8, u16, i16, u32, i32, u64, i64, usize, isize);
impl Arb for bool {
    fn arb() -> Self {
        next_bytes(1)[0] & 1 == 1
    }
}
impl Arb for f32 {
    fn arb() -> Self {
        f32::from_bits(u32::arb())
    }
}
impl<T: Arb, const N: usize> Arb for [T; N] {
    fn arb() -> Self {
        std::array::from_fn(|_| T::arb())
    }
}

pub fn any<T: Arb>() -> T {
    T::arb()
}

/// An assumption that does not hold for the replayed values means the values
/// are not a counterexample of this harness: stop quietly (the test passes,
/// i.e. "not reproduced").
pub fn assume(c: bool) {
    if !c {
        println!("VERIF-REPLAY: assumption violated, values are not a counterexample");
        std::process::exit(0);
    }
}

#[macro_export]
macro_rules! __shim_cover {
    ($($t:tt)*) => {};
}
pub use __shim_cover as cover;
