//! Native lifter validation: runs lifted scenarios on concrete inputs and
//! prints the observable results in the same format as `tvdump jitrun`.
use std::io::BufRead;
use vk_jitx::*;

fn main() {
    let kind = std::env::args().nth(1).unwrap();
    let stdin = std::io::stdin();
    for line in stdin.lock().lines() {
        let line = line.unwrap();
        if line.trim().is_empty() {
            continue;
        }
        // <sid> <nvars> <nchoice> <nout> <seed> | hex hex ..
        let parts: Vec<&str> = line.split('|').collect();
        let head: Vec<usize> = parts[0].split_whitespace().map(|s| s.parse().unwrap()).collect();
        let (sid, nvars, nch, nout, seed) = (head[0], head[1], head[2], head[3], head[4]);
        let vals: Vec<u32> = parts[1].split_whitespace().map(|s| u32::from_str_radix(s.trim_start_matches("0x"), 16).unwrap()).collect();
        reseed(seed as u64 + 1);
        let mut m = M::symbolic();
        match kind.as_str() {
            "point" => {
                m.setup_tracing(nvars, nch, nout, 4);
                for (i, v) in vals.iter().enumerate().take(nvars) {
                    m.poke32(R_A, 4 * i, *v);
                }
                for j in 0..nch + 2 {
                    m.poke8(R_B, j, 0);
                }
                m.poke8(R_C, 0, 0);
                let m0 = m.clone();
                let ok = run_point(sid, &mut m);
                let outs: Vec<String> = (0..nout).map(|i| format!("0x{:08x}", m.peek32(R_D, 4 * i))).collect();
                let tr: String = if m.peek8(R_C, 0) == 0 { "none".into() } else { (0..nch).map(|j| format!("{}", m.peek8(R_B, j))).collect() };
                let frame_ok = !m.oob && m.returned && m.g[RSP as usize] == STACK_TOP + 8 && m.g[12..16] == m0.g[12..16] && m.g[3] == m0.g[3] && m.g[5] == m0.g[5];
                println!("{{\"id\":{},\"found\":{},\"out\":\"{}\",\"trace\":\"{}\",\"frame_ok\":{}}}", sid, ok, outs.join(" "), tr, frame_ok);
            }
            _ => panic!("unsupported kind"),
        }
    }
}
