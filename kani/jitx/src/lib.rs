//! E-X harness crate: lifted x86-64 code of the real fidget-jit assemblers
//! (`src/gen.rs`, generated on every run by /verif/lib/jitgen.py) against the
//! real fidget_core kernels.
#![allow(unused, static_mut_refs, non_snake_case)]

#[cfg(not(kani))]
#[path = "../../shim.rs"]
pub mod kani_shim;
#[cfg(not(kani))]
pub use kani_shim as kani;

#[path = "../../kernels/src/stubs.rs"]
pub mod stubs;
#[path = "../../kernels/src/gen_.rs"]
pub mod gen_;
#[path = "../../../x86/x86rt.rs"]
pub mod x86rt;

pub use x86rt::*;

#[macro_export]
macro_rules! jit_harness {
    ($name:ident, $unwind:expr, $body:block) => {
        #[cfg_attr(kani, kani::proof)]
        #[cfg_attr(not(kani), test)]
        #[cfg_attr(kani, kani::unwind($unwind))]
        #[cfg_attr(kani, kani::stub(f32::sin, crate::stubs::sin))]
        #[cfg_attr(kani, kani::stub(f32::cos, crate::stubs::cos))]
        #[cfg_attr(kani, kani::stub(f32::tan, crate::stubs::tan))]
        #[cfg_attr(kani, kani::stub(f32::asin, crate::stubs::asin))]
        #[cfg_attr(kani, kani::stub(f32::acos, crate::stubs::acos))]
        #[cfg_attr(kani, kani::stub(f32::atan, crate::stubs::atan))]
        #[cfg_attr(kani, kani::stub(f32::exp, crate::stubs::exp))]
        #[cfg_attr(kani, kani::stub(f32::ln, crate::stubs::ln))]
        #[cfg_attr(kani, kani::stub(f32::atan2, crate::stubs::atan2))]
        #[cfg_attr(kani, kani::stub(f32::powi, crate::stubs::powi))]
        fn $name() $body
    };
}

/// Deterministic garbage for native runs
static mut LCG: u64 = 0x9E37_79B9_7F4A_7C15;
pub fn garbage() -> u64 {
    unsafe {
        LCG = LCG.wrapping_mul(6364136223846793005).wrapping_add(1442695040888963407);
        LCG >> 11
    }
}
pub fn reseed(s: u64) {
    unsafe { LCG = s.wrapping_mul(0x9E37_79B9_7F4A_7C15) | 1 }
}

impl M {
    /// Every register and flag arbitrary; every memory byte equal to one
    /// arbitrary byte per region (array-repeat: no loop for the solver), with
    /// the words a harness cares about then overwritten by fully arbitrary
    /// values (`poke32(.., any)`)
    pub fn symbolic() -> M {
        #[cfg(kani)]
        {
            macro_rules! a8 { () => { [kani::any(), kani::any(), kani::any(), kani::any(), kani::any(), kani::any(), kani::any(), kani::any()] }; }
            M {
                g: [kani::any(), kani::any(), kani::any(), kani::any(), kani::any(), kani::any(), kani::any(), kani::any(),
                    kani::any(), kani::any(), kani::any(), kani::any(), kani::any(), kani::any(), kani::any(), kani::any()],
                y: [a8!(), a8!(), a8!(), a8!(), a8!(), a8!(), a8!(), a8!(), a8!(), a8!(), a8!(), a8!(), a8!(), a8!(), a8!(), a8!()],
                zf: kani::any(),
                pf: kani::any(),
                cf: kani::any(),
                sf: kani::any(),
                of: kani::any(),
                stack: [[kani::any(); BANK], [kani::any(); BANK], [kani::any(); BANK], [kani::any(); BANK],
                        [kani::any(); BANK], [kani::any(); BANK], [kani::any(); BANK]],
                mem: [[kani::any(); RWORDS], [kani::any(); RWORDS], [kani::any(); RWORDS], [kani::any(); RWORDS],
                      [kani::any(); RWORDS], [kani::any(); RWORDS]],
                len: [0; NREG],
                oob: false,
                returned: false,
            }
        }
        #[cfg(not(kani))]
        {
            let mut m = M {
                g: [0; 16],
                y: [[0; 8]; 16],
                zf: garbage() & 1 == 1,
                pf: garbage() & 1 == 1,
                cf: garbage() & 1 == 1,
                sf: garbage() & 1 == 1,
                of: garbage() & 1 == 1,
                stack: [[0; BANK]; SBANKS],
                mem: [[0; RWORDS]; NREG],
                len: [0; NREG],
                oob: false,
                returned: false,
            };
            for r in m.g.iter_mut() {
                *r = garbage();
            }
            for r in m.y.iter_mut() {
                for l in r.iter_mut() {
                    *l = garbage() as u32;
                }
            }
            for r in m.stack.iter_mut() {
                for b in r.iter_mut() {
                    *b = garbage() as u32;
                }
            }
            for r in m.mem.iter_mut() {
                for b in r.iter_mut() {
                    *b = garbage() as u32;
                }
            }
            m
        }
    }

    /// Makes `n` 32-bit words of a region fully arbitrary
    pub fn havoc_words(&mut self, region: usize, n: usize) {
        let mut i = 0;
        while i < n && i < 16 {
            #[cfg(kani)]
            self.poke32(region, 4 * i, kani::any());
            i += 1;
        }
    }

    /// Calling convention of the tracing functions (point / interval):
    /// rdi = vars, rsi = choices, rdx = simplify, rcx = out
    pub fn setup_tracing(&mut self, nvars: usize, nchoice: usize, nout: usize, elem: usize) {
        self.g[RDI as usize] = BASES[R_A];
        self.g[RSI as usize] = BASES[R_B];
        self.g[RDX as usize] = BASES[R_C];
        self.g[RCX as usize] = BASES[R_D];
        self.g[RSP as usize] = STACK_TOP;
        self.len = [elem * nvars, nchoice + 2, 1, elem * nout, 0, 0];
    }

    pub fn peek32(&self, region: usize, off: usize) -> u32 {
        self.mem[region][off / 4]
    }
    pub fn poke32(&mut self, region: usize, off: usize, v: u32) {
        self.mem[region][off / 4] = v;
    }
    pub fn peek8(&self, region: usize, off: usize) -> u8 {
        (self.mem[region][off / 4] >> (8 * (off % 4))) as u8
    }
    pub fn poke8(&mut self, region: usize, off: usize, v: u8) {
        let sh = 8 * (off % 4);
        self.mem[region][off / 4] = (self.mem[region][off / 4] & !(0xFFu32 << sh)) | ((v as u32) << sh);
    }
    /// First `words` (<= 16) 32-bit words of a region are unchanged
    pub fn region_eq(&self, o: &M, region: usize, words: usize) -> bool {
        let mut i = 0;
        let mut ok = true;
        while i < words && i < 16 {
            if self.peek32(region, 4 * i) != o.peek32(region, 4 * i) {
                ok = false;
            }
            i += 1;
        }
        ok
    }
    /// The `n` f32 inputs range over the value lattice of gen_::lat
    pub fn lattice_inputs(&mut self, n: usize) {
        let mut i = 0;
        while i < n {
            let v = crate::gen_::lat::<31, 0>().to_bits();
            self.poke32(R_A, 4 * i, v);
            i += 1;
        }
    }

    /// ABI obligations of the compiled function
    pub fn check_frame(&self, m0: &M) {
        assert!(!self.oob, "JIT code accessed memory outside its buffers and frame");
        assert!(self.returned, "JIT code did not return");
        assert!(self.g[RSP as usize] == STACK_TOP + 8, "stack pointer not restored");
        assert!(self.g[RBX as usize] == m0.g[RBX as usize] && self.g[RBP as usize] == m0.g[RBP as usize], "rbx/rbp not preserved");
        assert!(
            self.g[12] == m0.g[12] && self.g[13] == m0.g[13] && self.g[14] == m0.g[14] && self.g[15] == m0.g[15],
            "callee-saved r12-r15 not preserved"
        );
        // the return address and the caller's frame are intact
        let lo = ((STACK_TOP - STACK_BASE) / 4) as usize;
        let mut i = 0;
        let mut ok = true;
        while i < CALLER_FRAME / 4 {
            let w = lo + i;
            if self.stack[w / BANK][w % BANK] != m0.stack[w / BANK][w % BANK] {
                ok = false;
            }
            i += 1;
        }
        assert!(ok, "JIT code wrote into its caller's frame");
    }
}

pub fn rel_out(got: f32, want: f32, minmax: bool) -> bool {
    (got.is_nan() && want.is_nan()) || got.to_bits() == want.to_bits() || (minmax && got == 0.0 && want == 0.0)
}

pub mod calls {
    //! Out-of-line callbacks: the identified Rust function plus the SysV
    //! clobber model (every caller-saved register becomes arbitrary).
    use crate::x86rt::*;
    #[cfg(not(kani))]
    use crate::kani;

    pub type F2 = fn(f32, f32) -> f32;
    pub const F_SIN: F2 = |a, _| a.sin();
    pub const F_COS: F2 = |a, _| a.cos();
    pub const F_TAN: F2 = |a, _| a.tan();
    pub const F_ASIN: F2 = |a, _| a.asin();
    pub const F_ACOS: F2 = |a, _| a.acos();
    pub const F_ATAN: F2 = |a, _| a.atan();
    pub const F_EXP: F2 = |a, _| a.exp();
    pub const F_LN: F2 = |a, _| a.ln();
    pub const F_ATAN2: F2 = |a, b| a.atan2(b);
    pub const F_REM_EUCLID: F2 = |a, b| a.rem_euclid(b);

    fn junk64() -> u64 {
        #[cfg(kani)]
        {
            kani::any()
        }
        #[cfg(not(kani))]
        {
            crate::garbage()
        }
    }

    pub fn clobber(m: &mut M) {
        for r in [0usize, 1, 2, 6, 7, 8, 9, 10, 11] {
            m.g[r] = junk64();
        }
        let mut r = 0;
        while r < 16 {
            let mut i = 0;
            while i < 8 {
                m.y[r][i] = junk64() as u32;
                i += 1;
            }
            r += 1;
        }
        m.zf = junk64() & 1 == 1;
        m.pf = junk64() & 1 == 1;
        m.cf = junk64() & 1 == 1;
        m.sf = junk64() & 1 == 1;
        m.of = junk64() & 1 == 1;
    }

    /// `extern "sysv64" fn(f32[, f32]) -> f32`
    pub fn call_f32(m: &mut M, f: F2) {
        assert!(m.g[RSP as usize] % 16 == 0, "stack not 16-byte aligned at a call");
        let a = f32::from_bits(m.y[0][0]);
        let b = f32::from_bits(m.y[1][0]);
        let r = f(a, b);
        clobber(m);
        m.y[0][0] = r.to_bits();
    }
}

use fidget_core::context::{BinaryOpcode as B, UnaryOpcode as U};
use fidget_core::types::{FloatExt, Grad, Interval};
use fidget_core::vm::Choice;

include!("gen.rs");
