//! C02 (bulk driver): `JitFloatSliceEval::eval` / `JitGradSliceEval::eval` --
//! the Rust code that splits a slice of `n` samples into calls of the
//! fixed-width machine-code function (SIMD width 8 for floats, 1 for
//! gradients), evaluates short slices in scratch buffers and the remainder
//! by re-evaluating the last full vector -- is executed symbolically around a
//! *model* bulk function (hook `JitBulkFn::verif_from_fn`).
//!
//! The model stands for any tape: it requires `size` to be a positive
//! multiple of the SIMD width (as the assemblers do), reads exactly `size`
//! elements of every input and writes exactly `size` elements of every
//! output, each output sample being a sample-wise function of the inputs at
//! the same index (here: a copy of one input, which is enough to tell which
//! sample went where).  Kani checks every pointer access of the model, so a
//! read or write outside the caller's slices / the evaluator's buffers is a
//! failed check.
#![allow(unused, static_mut_refs)]

#[cfg(not(kani))]
#[path = "../../shim.rs"]
pub mod kani_shim;
#[cfg(not(kani))]
pub use kani_shim as kani;

use fidget_core::eval::BulkEvaluator;
use fidget_core::types::Grad;
use fidget_core::var::{Var, VarMap};
use fidget_jit::{JitBulkFn, JitFloatSliceEval, JitGradSliceEval};

const NV: usize = 2; // variables of the model tape
const NO: usize = 3; // outputs (more outputs than variables)

static mut CALLS: usize = 0;
static mut BAD_SIZE: bool = false;

macro_rules! model_fn {
    ($name:ident, $t:ty, $w:expr) => {
        unsafe extern "sysv64" fn $name(vars: *const *const $t, out: *const *mut $t, size: u64) {
            unsafe {
                CALLS += 1;
                if size == 0 || size % $w != 0 {
                    BAD_SIZE = true;
                }
                let mut i = 0usize;
                while i < size as usize {
                    let mut j = 0;
                    while j < NO {
                        // output j is input (j mod NV) at the same sample index
                        let v = *(*vars.add(j % NV)).add(i);
                        *(*out.add(j)).add(i) = v;
                        j += 1;
                    }
                    i += 1;
                }
            }
        }
    };
}
model_fn!(model_f32, f32, 8);
model_fn!(model_grad, Grad, 1);

fn rs_fixed() -> std::hash::RandomState {
    unsafe { std::mem::zeroed() }
}

fn varmap() -> VarMap {
    let mut m = VarMap::new();
    m.insert(Var::X);
    m.insert(Var::Y);
    m
}

const NMAX: usize = 19; // 0, < 8, 8, 9..15, 16, 17..19: every residue class, up to two full vectors + remainder

fn float_once(eval: &mut JitFloatSliceEval, tape: &JitBulkFn<f32>, x: &[f32; NMAX], y: &[f32; NMAX], n: usize, k: usize) {
    let vars: [&[f32]; NV] = [&x[..n], &y[..n]];
    let r = eval.eval(tape, &vars);
    let out = match r {
        Ok(o) => o,
        Err(_) => {
            assert!(false, "well-formed arguments rejected");
            return;
        }
    };
    assert!(out.len() == NO, "one output array per output");
    let (o0, o1, o2) = (&out[0], &out[1], &out[2]);
    assert!(o0.len() == n && o1.len() == n && o2.len() == n, "exactly one result per input sample");
    if k < n {
        assert!(o0[k].to_bits() == x[k].to_bits(), "output 0 sample k is not the value of sample k");
        assert!(o1[k].to_bits() == y[k].to_bits(), "output 1 sample k is not the value of sample k");
        assert!(o2[k].to_bits() == x[k].to_bits(), "output 2 (beyond the variable count) sample k is not the value of sample k");
    }
    assert!(unsafe { !BAD_SIZE }, "machine code called with a size that is not a positive multiple of the SIMD width");
}

macro_rules! float_harness {
    ($name:ident, $n:expr) => {
        #[cfg_attr(kani, kani::proof)]
        #[cfg_attr(not(kani), test)]
        #[cfg_attr(kani, kani::unwind(21))]
        #[cfg_attr(kani, kani::stub(std::hash::RandomState::new, rs_fixed))]
        fn $name() {
            let tape = JitBulkFn::<f32>::verif_from_fn(model_f32, varmap(), NO);
            let mut eval = JitFloatSliceEval::default();
            let x: [f32; NMAX] = kani::any();
            let y: [f32; NMAX] = kani::any();
            let k: usize = kani::any();
            kani::assume(k < NMAX);
            float_once(&mut eval, &tape, &x, &y, $n, k);
            kani::cover!($n == 0 || k == $n - 1);
            std::mem::forget(eval);
            std::mem::forget(tape);
        }
    };
}
// slice lengths are concrete per harness (a symbolic length makes every Vec allocation symbolic: CBMC ran out of memory);
// the sample values and the inspected index are symbolic
float_harness!(c02_q_drv_float_n0, 0);
float_harness!(c02_q_drv_float_n1, 1);
float_harness!(c02_q_drv_float_n7, 7);
float_harness!(c02_q_drv_float_n8, 8);
float_harness!(c02_q_drv_float_n9, 9);
float_harness!(c02_q_drv_float_n13, 13);
float_harness!(c02_q_drv_float_n16, 16);
float_harness!(c02_q_drv_float_n19, 19);
float_harness!(c02_t_drv_float_n3, 3);
float_harness!(c02_t_drv_float_n12, 12);
float_harness!(c02_t_drv_float_n15, 15);
float_harness!(c02_t_drv_float_n17, 17);

/// the same evaluator object used twice (C10: results do not depend on what
/// the evaluator was used for before)
macro_rules! reuse_harness {
    ($name:ident, $n0:expr, $n:expr) => {
        #[cfg_attr(kani, kani::proof)]
        #[cfg_attr(not(kani), test)]
        #[cfg_attr(kani, kani::unwind(21))]
        #[cfg_attr(kani, kani::stub(std::hash::RandomState::new, rs_fixed))]
        fn $name() {
            let tape = JitBulkFn::<f32>::verif_from_fn(model_f32, varmap(), NO);
            let mut eval = JitFloatSliceEval::default();
            let x: [f32; NMAX] = kani::any();
            let y: [f32; NMAX] = kani::any();
            let k: usize = kani::any();
            kani::assume(k < NMAX);
            {
                let vars: [&[f32]; NV] = [&y[..$n0], &x[..$n0]];
                let _ = eval.eval(&tape, &vars);
            }
            float_once(&mut eval, &tape, &x, &y, $n, k);
            kani::cover!(k == $n - 1);
            std::mem::forget(eval);
            std::mem::forget(tape);
        }
    };
}
reuse_harness!(c10_q_drv_reuse_17_3, 17, 3);
reuse_harness!(c10_q_drv_reuse_2_11, 2, 11);
reuse_harness!(c10_q_drv_reuse_9_8, 9, 8);

const GMAX: usize = 3;

#[cfg_attr(kani, kani::proof)]
#[cfg_attr(not(kani), test)]
#[cfg_attr(kani, kani::unwind(6))]
#[cfg_attr(kani, kani::stub(std::hash::RandomState::new, rs_fixed))]
fn c02_q_drv_grad_slice() {
    let tape = JitBulkFn::<Grad>::verif_from_fn(model_grad, varmap(), NO);
    let mut eval = JitGradSliceEval::default();
    let mk = || Grad::new(kani::any(), kani::any(), kani::any(), kani::any());
    let x: [Grad; GMAX] = [mk(), mk(), mk()];
    let y: [Grad; GMAX] = [mk(), mk(), mk()];
    let n: usize = GMAX;
    let k: usize = kani::any();
    kani::assume(k < GMAX);
    let vars: [&[Grad]; NV] = [&x[..n], &y[..n]];
    let r = eval.eval(&tape, &vars);
    let out = match r {
        Ok(o) => o,
        Err(_) => {
            assert!(false, "well-formed arguments rejected");
            return;
        }
    };
    assert!(out.len() == NO, "one output array per output");
    let (o0, o1, o2) = (&out[0], &out[1], &out[2]);
    assert!(o0.len() == n && o1.len() == n && o2.len() == n, "exactly one result per input sample");
    if k < n {
        let same = |a: Grad, b: Grad| a.v.to_bits() == b.v.to_bits() && a.dx.to_bits() == b.dx.to_bits() && a.dy.to_bits() == b.dy.to_bits() && a.dz.to_bits() == b.dz.to_bits();
        assert!(same(o0[k], x[k]), "output 0 sample k is not the value of sample k");
        assert!(same(o1[k], y[k]), "output 1 sample k is not the value of sample k");
        assert!(same(o2[k], x[k]), "output 2 sample k is not the value of sample k");
    }
    assert!(unsafe { !BAD_SIZE }, "machine code called with size 0");
    kani::cover!(k == 2);
    std::mem::forget(eval);
    std::mem::forget(tape);
}
