//! C11: every interval kernel is total on valid operands (full width)
#[cfg(not(kani))]
use crate::kani;
use crate::gen_::*;
use crate::harness;
use fidget_core::types::Interval;

macro_rules! tot_unary {
    ($name:ident, |$a:ident| $e:expr) => {
        harness!($name, {
            let $a = any_interval();
            let r: Interval = $e;
            assert!(ivalid(r), "result is not a valid interval");
            kani::cover!(!r.has_nan(), "non-NaN result reachable");
        });
    };
}
macro_rules! tot_binary {
    ($name:ident, |$a:ident, $b:ident| $e:expr) => {
        harness!($name, {
            let $a = any_interval();
            let $b = any_interval();
            let r: Interval = $e;
            assert!(ivalid(r), "result is not a valid interval");
            kani::cover!(!r.has_nan(), "non-NaN result reachable");
        });
    };
}
macro_rules! tot_choice {
    ($name:ident, |$a:ident, $b:ident| $e:expr) => {
        harness!($name, {
            let $a = any_interval();
            let $b = any_interval();
            let (r, _c): (Interval, fidget_core::vm::Choice) = $e;
            assert!(ivalid(r), "result is not a valid interval");
            kani::cover!(!r.has_nan(), "non-NaN result reachable");
        });
    };
}

tot_unary!(c11_q_tot_neg, |a| -a);
tot_unary!(c11_q_tot_abs, |a| a.abs());
tot_unary!(c11_q_tot_sqrt, |a| a.sqrt());
tot_unary!(c11_q_tot_floor, |a| a.floor());
tot_unary!(c11_q_tot_ceil, |a| a.ceil());
tot_unary!(c11_q_tot_round, |a| a.round());
tot_unary!(c11_q_tot_tan, |a| a.tan());
tot_unary!(c11_q_tot_asin, |a| a.asin());
tot_unary!(c11_q_tot_acos, |a| a.acos());
tot_unary!(c11_q_tot_atan, |a| a.atan());
tot_unary!(c11_q_tot_exp, |a| a.exp());
tot_unary!(c11_q_tot_ln, |a| a.ln());
tot_unary!(c11_q_tot_not, |a| a.not());
tot_unary!(c11_q_tot_rand, |a| a.rand());

tot_binary!(c11_q_tot_mul, |a, b| a * b);
tot_binary!(c11_q_tot_div, |a, b| a / b);
tot_binary!(c11_q_tot_atan2, |a, b| a.atan2(b));
tot_binary!(c11_q_tot_compare, |a, b| Interval::compare(a, b));
tot_binary!(c11_q_tot_mix, |a, b| a.mix(b));
tot_choice!(c11_q_tot_min, |a, b| a.min_choice(b));
tot_choice!(c11_q_tot_max, |a, b| a.max_choice(b));
tot_choice!(c11_q_tot_and, |a, b| a.and_choice(b));
tot_choice!(c11_q_tot_or, |a, b| a.or_choice(b));

// Immediates become intervals through `From<f32>`: total for every f32
harness!(c11_q_tot_from_f32, {
    let k = any_f32();
    let r: Interval = k.into();
    assert!(ivalid(r));
    kani::cover!(!r.has_nan());
});

// --- Kernels whose well-formedness depends on the monotonicity of a rounded
// operation (x+y, x*x, 1/x, x*k): not decidable at full width by bit-blasting
// (> 30 min each), so the operands range over the lattice of `gen_::lat`
// (which contains +-0, +-inf, NaN, +-MAX, denormals).
macro_rules! tot_lat {
    ($name:ident, $k:expr, $e:expr, |$a:ident, $b:ident| $ex:expr) => {
        harness!($name, {
            let $a = lat_interval::<$k, $e>();
            let $b = lat_interval::<$k, $e>();
            let r: Interval = $ex;
            assert!(ivalid(r), "result is not a valid interval");
            kani::cover!(!r.has_nan(), "non-NaN result reachable");
        });
    };
}
macro_rules! tot_lat_imm {
    ($name:ident, $k:expr, $e:expr, |$a:ident, $b:ident| $ex:expr) => {
        harness!($name, {
            let $a = lat_interval::<$k, $e>();
            let $b = lat::<$k, $e>();
            let r: Interval = $ex;
            assert!(ivalid(r), "result is not a valid interval");
            kani::cover!(!r.has_nan(), "non-NaN result reachable");
        });
    };
}
tot_lat!(c11_q_tot_add, 63, 0, |a, b| a + b);
tot_lat!(c11_q_tot_sub, 63, 0, |a, b| a - b);
tot_lat!(c11_q_tot_square, 63, 0, |a, _b| a.square());
tot_lat!(c11_q_tot_recip, 63, 0, |a, _b| a.recip());
tot_lat_imm!(c11_q_tot_mul_imm, 63, 0, |a, k| a * k);
tot_lat!(c11_t_tot_add_e60, 127, 60, |a, b| a + b);
tot_lat!(c11_t_tot_sub_e60, 127, 60, |a, b| a - b);
tot_lat!(c11_t_tot_add_e120, 127, 120, |a, b| a + b);
tot_lat!(c11_t_tot_sub_e120, 127, 120, |a, b| a - b);
tot_lat!(c11_t_tot_square_e120, 127, 120, |a, _b| a.square());
tot_lat!(c11_t_tot_recip_e120, 127, 120, |a, _b| a.recip());
tot_lat_imm!(c11_t_tot_mul_imm_e60, 127, 60, |a, k| a * k);
tot_lat_imm!(c11_t_tot_mul_imm_e120, 127, 120, |a, k| a * k);

// sin / cos: the quadrant branches build `Interval::new(f(lower), f(upper))`
// and are total only because libm sin/cos are monotone between the *float*
// quadrant boundaries -- a fact about real analysis + rounding that no
// contract stub can state.  Decided here: NaN, width >= TAU and degenerate
// operands (the branches that do not depend on it); the quadrant branches are
// outside the claim.
macro_rules! tot_trig {
    ($name:ident, |$a:ident| $e:expr) => {
        harness!($name, {
            let $a = any_interval();
            kani::assume($a.has_nan() || $a.lower() == $a.upper() || $a.width() >= std::f32::consts::TAU);
            let r: Interval = $e;
            assert!(ivalid(r), "result is not a valid interval");
            kani::cover!(!r.has_nan() && $a.lower() == $a.upper());
            kani::cover!(!r.has_nan() && $a.lower() != $a.upper());
        });
    };
}
tot_trig!(c11_q_tot_sin_nonquadrant, |a| a.sin());
tot_trig!(c11_q_tot_cos_nonquadrant, |a| a.cos());

// rem_euclid: CBMC has no exact model of float `%`; the branch for a constant
// positive divisor (which relies on exactness of fmod) is outside the claim.
harness!(c11_q_tot_mod_general, {
    let a = any_interval();
    let b = any_interval();
    kani::assume(!(b.lower() == b.upper() && b.lower() > 0.0));
    let r = a.rem_euclid(b);
    assert!(ivalid(r), "result is not a valid interval");
    kani::cover!(!r.has_nan());
});

// ---- argument errors are error values, never panics, and `Ok` means the
// evaluators' slice copies cannot go out of step
fn rs_fixed() -> std::hash::RandomState {
    // the map is empty in these harnesses: any fixed hasher state will do
    unsafe { std::mem::zeroed() }
}

#[cfg_attr(kani, kani::proof)]
#[cfg_attr(not(kani), test)]
#[cfg_attr(kani, kani::unwind(5))]
#[cfg_attr(kani, kani::stub(std::hash::RandomState::new, rs_fixed))]
fn c11_q_args_bulk() {
    use fidget_core::var::{Var, VarMap};
    let mut m = VarMap::new();
    m.insert(Var::X);
    m.insert(Var::Y);
    let data = [0.0f32; 3];
    let n: usize = kani::any();
    let (l0, l1, l2): (usize, usize, usize) = (kani::any(), kani::any(), kani::any());
    kani::assume(n <= 3 && l0 <= 3 && l1 <= 3 && l2 <= 3);
    let all: [&[f32]; 3] = [&data[..l0], &data[..l1], &data[..l2]];
    let r = m.check_bulk_arguments(&all[..n]);
    if n < 2 {
        assert!(r.is_err(), "too few variables must be an error");
    } else if r.is_ok() {
        // every slice the tape will read has the length of the first one
        assert!(l0 == l1, "Ok although the slices read by the tape differ in length");
        assert!(n < 3 || l2 == l0, "Ok although a supplied slice differs in length");
    } else {
        assert!(!(l0 == l1 && (n < 3 || l2 == l0)), "well-formed argument list rejected");
    }
    kani::cover!(r.is_ok() && n == 3);
    kani::cover!(r.is_err() && n == 3);
    std::mem::forget(m);
}
#[cfg_attr(kani, kani::proof)]
#[cfg_attr(not(kani), test)]
#[cfg_attr(kani, kani::unwind(5))]
#[cfg_attr(kani, kani::stub(std::hash::RandomState::new, rs_fixed))]
fn c11_q_args_tracing() {
    use fidget_core::var::{Var, VarMap};
    let mut m = VarMap::new();
    m.insert(Var::X);
    m.insert(Var::Z);
    let data = [0.0f32; 4];
    let n: usize = kani::any();
    kani::assume(n <= 4);
    let r = m.check_tracing_arguments(&data[..n]);
    assert!(r.is_ok() == (n >= 2));
    kani::cover!(r.is_ok());
    kani::cover!(r.is_err());
    std::mem::forget(m);
}
