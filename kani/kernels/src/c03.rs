//! C03: interval kernels enclose the point kernels (local obligation per op).
//!
//! For every valid operand interval(s) and every point operand(s) inside,
//! `interval_op(A, B).has_nan() || point_op(a, b).is_nan()
//!   || interval_op(A, B).contains(point_op(a, b))`.
//! The point op is the one the VM point evaluator uses (`BinaryOpcode::eval`
//! / `UnaryOpcode::eval`, tied to the interpreter by the C01 harnesses).
#[cfg(not(kani))]
use crate::kani;
use crate::gen_::*;
use crate::harness;
use fidget_core::context::{BinaryOpcode as B, UnaryOpcode as U};
use fidget_core::types::Interval;

macro_rules! enc_unary_full {
    ($name:ident, $op:expr, |$a:ident| $e:expr) => {
        harness!($name, {
            let $a = any_interval();
            kani::assume(!$a.has_nan());
            let p = any_in($a);
            let r: Interval = $e;
            let v = $op.eval(p);
            assert!(encloses(r, v), "interval result does not enclose the point result");
            kani::cover!(!r.has_nan() && !v.is_nan(), "non-trivial enclosure reachable");
        });
    };
}
macro_rules! enc_binary_full {
    ($name:ident, $op:expr, |$a:ident, $b:ident| $e:expr) => {
        harness!($name, {
            let $a = any_interval();
            let $b = any_interval();
            kani::assume(!$a.has_nan() && !$b.has_nan());
            let p = any_in($a);
            let q = any_in($b);
            let r: Interval = $e;
            let v = $op.eval(p, q);
            assert!(encloses(r, v), "interval result does not enclose the point result");
            kani::cover!(!r.has_nan() && !v.is_nan(), "non-trivial enclosure reachable");
        });
    };
}
macro_rules! enc_unary_lat {
    ($name:ident, $k:expr, $x:expr, $op:expr, |$a:ident| $e:expr) => {
        harness!($name, {
            let $a = lat_interval::<$k, $x>();
            kani::assume(!$a.has_nan());
            let p = lat_in::<$k, $x>($a);
            let r: Interval = $e;
            let v = $op.eval(p);
            assert!(encloses(r, v), "interval result does not enclose the point result");
            kani::cover!(!r.has_nan() && !v.is_nan(), "non-trivial enclosure reachable");
        });
    };
}
macro_rules! enc_binary_lat {
    ($name:ident, $k:expr, $x:expr, $op:expr, |$a:ident, $b:ident| $e:expr) => {
        harness!($name, {
            let $a = lat_interval::<$k, $x>();
            let $b = lat_interval::<$k, $x>();
            kani::assume(!$a.has_nan() && !$b.has_nan());
            let p = lat_in::<$k, $x>($a);
            let q = lat_in::<$k, $x>($b);
            let r: Interval = $e;
            let v = $op.eval(p, q);
            assert!(encloses(r, v), "interval result does not enclose the point result");
            kani::cover!(!r.has_nan() && !v.is_nan(), "non-trivial enclosure reachable");
        });
    };
}

// ---- full width: selection-shaped kernels ---------------------------------
enc_unary_full!(c03_q_enc_neg, U::Neg, |a| -a);
enc_unary_full!(c03_q_enc_abs, U::Abs, |a| a.abs());
enc_unary_full!(c03_q_enc_not, U::Not, |a| a.not());
enc_unary_full!(c03_t_enc_rand, U::Rand, |a| a.rand());
enc_unary_lat!(c03_q_enc_rand_lat, 31, 0, U::Rand, |a| a.rand());
enc_unary_full!(c03_q_enc_floor, U::Floor, |a| a.floor());
enc_unary_full!(c03_q_enc_ceil, U::Ceil, |a| a.ceil());
enc_unary_full!(c03_q_enc_round, U::Round, |a| a.round());
enc_binary_full!(c03_q_enc_min, B::Min, |a, b| a.min_choice(b).0);
enc_binary_full!(c03_q_enc_max, B::Max, |a, b| a.max_choice(b).0);
enc_binary_full!(c03_q_enc_and, B::And, |a, b| a.and_choice(b).0);
enc_binary_full!(c03_q_enc_or, B::Or, |a, b| a.or_choice(b).0);
enc_binary_full!(c03_q_enc_compare, B::Compare, |a, b| Interval::compare(a, b));
enc_binary_full!(c03_t_enc_mix, B::Mix, |a, b| a.mix(b));
enc_binary_lat!(c03_q_enc_mix_lat, 15, 0, B::Mix, |a, b| a.mix(b));

// ---- full width under monotone contract stubs ------------------------------
enc_unary_full!(c03_q_enc_sqrt, U::Sqrt, |a| a.sqrt());
enc_unary_full!(c03_q_enc_exp, U::Exp, |a| a.exp());
enc_unary_full!(c03_q_enc_ln, U::Ln, |a| a.ln());
enc_unary_full!(c03_q_enc_atan, U::Atan, |a| a.atan());
enc_unary_full!(c03_q_enc_asin, U::Asin, |a| a.asin());
enc_unary_full!(c03_q_enc_acos, U::Acos, |a| a.acos());

// ---- lattice: enclosure through a rounded arithmetic operation -------------
enc_binary_lat!(c03_q_enc_add, 31, 0, B::Add, |a, b| a + b);
enc_binary_lat!(c03_q_enc_sub, 31, 0, B::Sub, |a, b| a - b);
enc_binary_lat!(c03_q_enc_mul, 7, 0, B::Mul, |a, b| a * b);
enc_binary_lat!(c03_t_enc_mul_k15, 15, 0, B::Mul, |a, b| a * b);
enc_binary_lat!(c03_q_enc_div, 7, 0, B::Div, |a, b| a / b);
enc_binary_lat!(c03_t_enc_div_k15, 15, 0, B::Div, |a, b| a / b);
enc_unary_lat!(c03_q_enc_square, 31, 0, U::Square, |a| a.square());
enc_unary_lat!(c03_q_enc_recip, 31, 0, U::Recip, |a| a.recip());

enc_binary_lat!(c03_t_enc_add_k127, 127, 0, B::Add, |a, b| a + b);
enc_binary_lat!(c03_t_enc_sub_k127, 127, 0, B::Sub, |a, b| a - b);
enc_binary_lat!(c03_t_enc_mul_k63, 63, 0, B::Mul, |a, b| a * b);
enc_binary_lat!(c03_t_enc_div_k63, 63, 0, B::Div, |a, b| a / b);
enc_unary_lat!(c03_t_enc_square_k127, 127, 0, U::Square, |a| a.square());
enc_unary_lat!(c03_t_enc_recip_k127, 127, 0, U::Recip, |a| a.recip());
enc_binary_lat!(c03_t_enc_add_e120, 127, 120, B::Add, |a, b| a + b);
enc_binary_lat!(c03_t_enc_sub_e120, 127, 120, B::Sub, |a, b| a - b);
enc_binary_lat!(c03_t_enc_mul_e60, 31, 60, B::Mul, |a, b| a * b);
enc_binary_lat!(c03_t_enc_div_e60, 31, 60, B::Div, |a, b| a / b);
enc_unary_lat!(c03_t_enc_square_e120, 127, 120, U::Square, |a| a.square());
enc_unary_lat!(c03_t_enc_recip_e120, 127, 120, U::Recip, |a| a.recip());

// `Interval * f32` is what MulRegImm uses (not `Interval * Interval`)
harness!(c03_q_enc_mul_imm, {
    let a = lat_interval::<31, 0>();
    kani::assume(!a.has_nan());
    let k = lat::<31, 0>();
    let p = lat_in::<31, 0>(a);
    let r = a * k;
    let v = B::Mul.eval(p, k);
    assert!(encloses(r, v), "interval result does not enclose the point result");
    kani::cover!(!r.has_nan() && !v.is_nan());
});
harness!(c03_t_enc_mul_imm_e60, {
    let a = lat_interval::<127, 60>();
    kani::assume(!a.has_nan());
    let k = lat::<127, 60>();
    let p = lat_in::<127, 60>(a);
    let r = a * k;
    let v = B::Mul.eval(p, k);
    assert!(encloses(r, v), "interval result does not enclose the point result");
    kani::cover!(!r.has_nan() && !v.is_nan());
});

// ---- sin / cos / tan: no monotonicity contract can be stated for the float
// quadrant logic, so only range, NaN propagation and the degenerate case are
// decided (the stubs are functional, so `[a,a]` must give exactly `f(a)`).
macro_rules! enc_trig {
    ($name:ident, $op:expr, |$a:ident| $e:expr, $bounded:expr) => {
        harness!($name, {
            let $a = any_interval();
            // the quadrant branches of sin/cos are outside the claim (see c11.rs)
            kani::assume(!$bounded || $a.has_nan() || $a.lower() == $a.upper()
                || $a.width() >= std::f32::consts::TAU);
            let r: Interval = $e;
            if $a.has_nan() {
                assert!(r.has_nan(), "NaN operand must give the NaN interval");
            } else {
                let p = any_in($a);
                let v = $op.eval(p);
                if $bounded {
                    // width >= TAU or degenerate: full enclosure is decided
                    assert!(encloses(r, v), "interval result does not enclose the point result");
                    if !r.has_nan() {
                        assert!(r.lower() >= -1.0 && r.upper() <= 1.0, "range");
                    }
                } else if $a.lower() == $a.upper() {
                    assert!(encloses(r, v), "degenerate interval must enclose the point value");
                }
                kani::cover!(!v.is_nan() && !r.has_nan() && $a.lower() == $a.upper());
                kani::cover!(!v.is_nan() && !r.has_nan() && $a.lower() != $a.upper());
            }
        });
    };
}
enc_trig!(c03_q_enc_sin_nonquadrant, U::Sin, |a| a.sin(), true);
enc_trig!(c03_q_enc_cos_nonquadrant, U::Cos, |a| a.cos(), true);
enc_trig!(c03_q_enc_tan_weak, U::Tan, |a| a.tan(), false);

// NaN operands never yield a non-NaN interval that could be used to prune:
// (checked for every arithmetic kernel at full width)
macro_rules! nan_prop {
    ($name:ident, |$a:ident, $b:ident| $e:expr) => {
        harness!($name, {
            let $a = any_interval();
            let $b = any_interval();
            kani::assume($a.has_nan() || $b.has_nan());
            let r: Interval = $e;
            assert!(r.has_nan(), "NaN operand must give the NaN interval");
            kani::cover!(true);
        });
    };
}
nan_prop!(c03_q_nan_mul, |a, b| a * b);
nan_prop!(c03_q_nan_div, |a, b| a / b);
nan_prop!(c03_q_nan_min, |a, b| a.min_choice(b).0);
nan_prop!(c03_q_nan_max, |a, b| a.max_choice(b).0);
nan_prop!(c03_q_nan_and, |a, b| a.and_choice(b).0);
nan_prop!(c03_q_nan_or, |a, b| a.or_choice(b).0);
nan_prop!(c03_q_nan_compare, |a, b| Interval::compare(a, b));
nan_prop!(c03_q_nan_atan2, |a, b| a.atan2(b));
nan_prop!(c03_q_nan_mod, |a, b| a.rem_euclid(b));

// ---- atan2: corner selection decided under the quadrant-dominance contract
// of the atan2 stub (see stubs.rs); excluded as in the property: the point
// (y, x) = (0, 0)
harness!(c03_q_enc_atan2, {
    let ya = any_interval();
    let xa = any_interval();
    kani::assume(!ya.has_nan() && !xa.has_nan());
    let y = any_in(ya);
    let x = any_in(xa);
    kani::assume(!(y == 0.0 && x == 0.0));
    let r = ya.atan2(xa);
    let v = B::Atan.eval(y, x);
    assert!(encloses(r, v), "interval result does not enclose the point result");
    kani::cover!(!r.has_nan() && !v.is_nan() && r.lower() > -3.0 && r.upper() < 3.0);
    kani::cover!(!r.has_nan() && r.lower() < -3.0 && r.upper() > 3.0);
});
