//! C20 / C04: choice kernels report what the operand values imply, and a
//! one-sided choice means the result *is* that operand (bit-for-bit), which is
//! what makes replacing the clause by a copy sound.
#[cfg(not(kani))]
use crate::kani;
use crate::gen_::*;
use crate::harness;
use fidget_core::types::{FloatExt, Grad, Interval};
use fidget_core::vm::Choice;

// ---- f32 -------------------------------------------------------------------
harness!(c20_q_f32_min, {
    let (a, b) = (any_f32(), any_f32());
    let (v, c) = a.min_choice(b);
    let want = if a < b { Choice::Left } else if b < a { Choice::Right } else { Choice::Both };
    assert!(c == want, "choice is not what the operands imply");
    assert!(c != Choice::Unknown);
    match c {
        Choice::Left => assert!(v.to_bits() == a.to_bits()),
        Choice::Right => assert!(v.to_bits() == b.to_bits()),
        _ => assert!(if a.is_nan() || b.is_nan() { v.is_nan() } else { v == a && v == b }),
    }
    kani::cover!(c == Choice::Left);
    kani::cover!(c == Choice::Right);
    kani::cover!(c == Choice::Both && !v.is_nan());
});
harness!(c20_q_f32_max, {
    let (a, b) = (any_f32(), any_f32());
    let (v, c) = a.max_choice(b);
    let want = if a > b { Choice::Left } else if b > a { Choice::Right } else { Choice::Both };
    assert!(c == want, "choice is not what the operands imply");
    match c {
        Choice::Left => assert!(v.to_bits() == a.to_bits()),
        Choice::Right => assert!(v.to_bits() == b.to_bits()),
        _ => assert!(if a.is_nan() || b.is_nan() { v.is_nan() } else { v == a && v == b }),
    }
    kani::cover!(c == Choice::Left);
    kani::cover!(c == Choice::Right);
    kani::cover!(c == Choice::Both && !v.is_nan());
});
harness!(c20_q_f32_and, {
    let (a, b) = (any_f32(), any_f32());
    let (v, c) = a.and_choice(b);
    let want = if a == 0.0 { Choice::Left } else { Choice::Right };
    assert!(c == want, "choice is not what the operands imply");
    match c {
        Choice::Left => assert!(v.to_bits() == a.to_bits()),
        _ => assert!(v.to_bits() == b.to_bits()),
    }
    kani::cover!(c == Choice::Left);
    kani::cover!(c == Choice::Right);
});
harness!(c20_q_f32_or, {
    let (a, b) = (any_f32(), any_f32());
    let (v, c) = a.or_choice(b);
    let want = if a != 0.0 { Choice::Left } else { Choice::Right };
    assert!(c == want, "choice is not what the operands imply");
    match c {
        Choice::Left => assert!(v.to_bits() == a.to_bits()),
        _ => assert!(v.to_bits() == b.to_bits()),
    }
    kani::cover!(c == Choice::Left);
    kani::cover!(c == Choice::Right);
});

// ---- Interval: a one-sided interval choice is valid for every point of the
// box under *every* point-wise kernel (f32 and Grad), i.e. the point kernel
// returns exactly the chosen operand there.
macro_rules! ichoice {
    ($name:ident, $im:ident, $fm:ident, $gm:ident) => {
        harness!($name, {
            let a = any_interval();
            let b = any_interval();
            let (r, c) = a.$im(b);
            assert!(c != Choice::Unknown, "Unknown is never a valid result");
            if a.has_nan() || b.has_nan() {
                assert!(c == Choice::Both, "NaN operands are undecided");
            } else {
                let p = any_in(a);
                let q = any_in(b);
                let (v, pc) = p.$fm(q);
                // Gradient kernel with arbitrary derivative lanes
                let gp = Grad::new(p, any_f32(), any_f32(), any_f32());
                let gq = Grad::new(q, any_f32(), any_f32(), any_f32());
                let g = gp.$gm(gq);
                match c {
                    Choice::Left => {
                        assert!(v.to_bits() == p.to_bits(), "Left: point result must be the lhs");
                        assert!(pc == Choice::Left || pc == Choice::Both);
                        assert!(g.v.to_bits() == gp.v.to_bits() && g.dx.to_bits() == gp.dx.to_bits()
                            && g.dy.to_bits() == gp.dy.to_bits() && g.dz.to_bits() == gp.dz.to_bits(),
                            "Left: gradient result must be the lhs");
                    }
                    Choice::Right => {
                        assert!(v.to_bits() == q.to_bits(), "Right: point result must be the rhs");
                        assert!(pc == Choice::Right || pc == Choice::Both);
                        assert!(g.v.to_bits() == gq.v.to_bits() && g.dx.to_bits() == gq.dx.to_bits()
                            && g.dy.to_bits() == gq.dy.to_bits() && g.dz.to_bits() == gq.dz.to_bits(),
                            "Right: gradient result must be the rhs");
                    }
                    _ => (),
                }
                kani::cover!(c == Choice::Left);
                kani::cover!(c == Choice::Right);
                kani::cover!(c == Choice::Both);
            }
        });
    };
}
ichoice!(c20_q_interval_min, min_choice, min_choice, min);
ichoice!(c20_q_interval_max, max_choice, max_choice, max);
ichoice!(c20_q_interval_and, and_choice, and_choice, and);
ichoice!(c20_q_interval_or, or_choice, or_choice, or);

// ---- the Choice bit-field algebra used to accumulate traces ----------------
harness!(c20_q_choice_or_assign, {
    let all = [Choice::Unknown, Choice::Left, Choice::Right, Choice::Both];
    let i: usize = kani::any();
    let j: usize = kani::any();
    kani::assume(i < 4 && j < 4);
    let mut c = all[i];
    c |= all[j];
    assert!(c as u8 == (all[i] as u8 | all[j] as u8));
    // accumulating into a cleared entry yields exactly the kernel's choice
    let mut z = Choice::Unknown;
    z |= all[j];
    assert!(z == all[j]);
    kani::cover!(c == Choice::Both);
});
