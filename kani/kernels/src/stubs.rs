//! Contract stubs for libm-backed `f32` methods.
//!
//! Kani/CBMC model these intrinsics non-functionally (or not at all), which
//! makes harnesses fail spuriously.  Each stub is *functional* (a small memo
//! table keyed on the argument bits), propagates NaN, respects the documented
//! range, and is monotone only where the contract says so.  Everything a
//! harness proves about code that calls these holds for *every* function that
//! satisfies the contract, in particular the platform libm (assuming libm is
//! monotone where stated -- this is listed in the evidence as an assumption).
#[cfg(not(kani))]
use crate::kani;
use std::f32::consts::{FRAC_PI_2, PI};

const CAP: usize = 6;

pub struct Memo {
    n: usize,
    k: [u32; CAP],
    v: [f32; CAP],
}

impl Memo {
    pub const fn new() -> Self {
        Memo {
            n: 0,
            k: [0; CAP],
            v: [0.0; CAP],
        }
    }
}

#[derive(Copy, Clone, PartialEq)]
pub enum Mono {
    None,
    Up,
    Down,
}

/// Looks `x` up in the memo table, or draws a fresh value with `draw`,
/// constrained to be consistent (monotone) with previous entries
fn memo(m: &mut Memo, x: f32, mono: Mono, draw: impl FnOnce() -> f32) -> f32 {
    let mut i = 0;
    while i < CAP {
        if i < m.n && (m.k[i] == x.to_bits()) {
            return m.v[i];
        }
        i += 1;
    }
    let r = draw();
    let mut i = 0;
    while i < CAP {
        if i < m.n {
            let k = f32::from_bits(m.k[i]);
            let v = m.v[i];
            if !k.is_nan() && !x.is_nan() && !v.is_nan() && !r.is_nan() {
                match mono {
                    Mono::None => {
                        // +0.0 and -0.0 are the same real argument
                        if k == x {
                            kani::assume(v == r);
                        }
                    }
                    Mono::Up => {
                        if k < x {
                            kani::assume(v <= r);
                        } else if k > x {
                            kani::assume(v >= r);
                        } else {
                            kani::assume(v == r);
                        }
                    }
                    Mono::Down => {
                        if k < x {
                            kani::assume(v >= r);
                        } else if k > x {
                            kani::assume(v <= r);
                        } else {
                            kani::assume(v == r);
                        }
                    }
                }
            }
        }
        i += 1;
    }
    // Table overflow would silently drop functionality: make it loud.
    assert!(m.n < CAP, "stub memo table overflow");
    m.k[m.n] = x.to_bits();
    m.v[m.n] = r;
    m.n += 1;
    r
}

fn any_f32() -> f32 {
    f32::from_bits(kani::any())
}

static mut SIN: Memo = Memo::new();
static mut COS: Memo = Memo::new();
static mut TAN: Memo = Memo::new();
static mut ASIN: Memo = Memo::new();
static mut ACOS: Memo = Memo::new();
static mut ATAN: Memo = Memo::new();
static mut EXP: Memo = Memo::new();
static mut LN: Memo = Memo::new();
static mut SQRT: Memo = Memo::new();
static mut ATAN2A: Memo = Memo::new();

pub fn sin(x: f32) -> f32 {
    memo(unsafe { &mut SIN }, x, Mono::None, || {
        if x.is_nan() || x.is_infinite() {
            f32::NAN
        } else {
            let r = any_f32();
            kani::assume(r >= -1.0 && r <= 1.0);
            r
        }
    })
}

pub fn cos(x: f32) -> f32 {
    memo(unsafe { &mut COS }, x, Mono::None, || {
        if x.is_nan() || x.is_infinite() {
            f32::NAN
        } else {
            let r = any_f32();
            kani::assume(r >= -1.0 && r <= 1.0);
            r
        }
    })
}

pub fn tan(x: f32) -> f32 {
    memo(unsafe { &mut TAN }, x, Mono::None, || {
        if x.is_nan() || x.is_infinite() {
            f32::NAN
        } else {
            let r = any_f32();
            kani::assume(!r.is_nan());
            r
        }
    })
}

pub fn asin(x: f32) -> f32 {
    memo(unsafe { &mut ASIN }, x, Mono::Up, || {
        if x.is_nan() || x < -1.0 || x > 1.0 {
            f32::NAN
        } else {
            let r = any_f32();
            kani::assume(r >= -FRAC_PI_2 && r <= FRAC_PI_2);
            r
        }
    })
}

pub fn acos(x: f32) -> f32 {
    memo(unsafe { &mut ACOS }, x, Mono::Down, || {
        if x.is_nan() || x < -1.0 || x > 1.0 {
            f32::NAN
        } else {
            let r = any_f32();
            kani::assume(r >= 0.0 && r <= PI);
            r
        }
    })
}

pub fn atan(x: f32) -> f32 {
    memo(unsafe { &mut ATAN }, x, Mono::Up, || {
        if x.is_nan() {
            f32::NAN
        } else {
            let r = any_f32();
            kani::assume(r >= -FRAC_PI_2 && r <= FRAC_PI_2);
            r
        }
    })
}

pub fn exp(x: f32) -> f32 {
    memo(unsafe { &mut EXP }, x, Mono::Up, || {
        if x.is_nan() {
            f32::NAN
        } else if x == f32::NEG_INFINITY {
            0.0
        } else if x == f32::INFINITY {
            f32::INFINITY
        } else {
            let r = any_f32();
            kani::assume(r >= 0.0);
            r
        }
    })
}

pub fn ln(x: f32) -> f32 {
    memo(unsafe { &mut LN }, x, Mono::Up, || {
        if x.is_nan() || x < 0.0 {
            f32::NAN
        } else if x == 0.0 {
            f32::NEG_INFINITY
        } else if x == f32::INFINITY {
            f32::INFINITY
        } else {
            let r = any_f32();
            kani::assume(r.is_finite());
            r
        }
    })
}

pub fn sqrt(x: f32) -> f32 {
    memo(unsafe { &mut SQRT }, x, Mono::Up, || {
        if x.is_nan() || x < 0.0 {
            f32::NAN
        } else if x == 0.0 {
            x
        } else if x == f32::INFINITY {
            f32::INFINITY
        } else {
            let r = any_f32();
            kani::assume(r > 0.0 && r.is_finite());
            r
        }
    })
}

/// atan2: functional (two-argument memo), NaN propagation, range by
/// quadrant, exact values on the axes, and *dominance* inside each closed
/// quadrant (atan2 is monotone in each argument there):
///   Q1 (y>=0,x>=0): increasing in y, decreasing in x
///   Q2 (y>=0,x<=0): decreasing in y, decreasing in x
///   Q3 (y<=0,x<=0): decreasing in y, increasing in x
///   Q4 (y<=0,x>=0): increasing in y, increasing in x
/// The sign of a zero `y` decides the side of the branch cut.
static mut ATAN2_N: usize = 0;
static mut ATAN2_K: [(u32, u32); CAP] = [(0, 0); CAP];
static mut ATAN2_V: [f32; CAP] = [0.0; CAP];

fn quad(y: f32, x: f32) -> (bool, bool, bool, bool) {
    let up = !y.is_sign_negative();
    let right = x >= 0.0;
    let left = x <= 0.0;
    (up && right, up && left, !up && left, !up && right)
}

pub fn atan2(y: f32, x: f32) -> f32 {
    unsafe {
        let mut i = 0;
        while i < CAP {
            if i < ATAN2_N && ATAN2_K[i] == (y.to_bits(), x.to_bits()) {
                return ATAN2_V[i];
            }
            i += 1;
        }
        let r = if y.is_nan() || x.is_nan() {
            f32::NAN
        } else {
            let r = any_f32();
            kani::assume(r >= -PI && r <= PI);
            // half planes
            if !y.is_sign_negative() {
                kani::assume(r >= 0.0);
            } else {
                kani::assume(r <= 0.0);
            }
            if x > 0.0 {
                kani::assume(r >= -FRAC_PI_2 && r <= FRAC_PI_2);
            } else if x < 0.0 {
                kani::assume(r >= FRAC_PI_2 || r <= -FRAC_PI_2);
            }
            // axes
            if y == 0.0 && x > 0.0 {
                kani::assume(r == 0.0);
            }
            if y == 0.0 && x < 0.0 {
                kani::assume(if y.is_sign_negative() { r == -PI } else { r == PI });
            }
            if x == 0.0 && y > 0.0 {
                kani::assume(r == FRAC_PI_2);
            }
            if x == 0.0 && y < 0.0 {
                kani::assume(r == -FRAC_PI_2);
            }
            // dominance against earlier evaluations in the same closed quadrant
            let (q1, q2, q3, q4) = quad(y, x);
            let mut i = 0;
            while i < CAP {
                if i < ATAN2_N {
                    let (yb, xb) = ATAN2_K[i];
                    let (y2, x2) = (f32::from_bits(yb), f32::from_bits(xb));
                    let r2 = ATAN2_V[i];
                    if !r2.is_nan() {
                        let (p1, p2, p3, p4) = quad(y2, x2);
                        if q1 && p1 {
                            if y2 <= y && x2 >= x { kani::assume(r2 <= r); }
                            if y2 >= y && x2 <= x { kani::assume(r2 >= r); }
                        }
                        if q2 && p2 {
                            if y2 >= y && x2 >= x { kani::assume(r2 <= r); }
                            if y2 <= y && x2 <= x { kani::assume(r2 >= r); }
                        }
                        if q3 && p3 {
                            if y2 >= y && x2 <= x { kani::assume(r2 <= r); }
                            if y2 <= y && x2 >= x { kani::assume(r2 >= r); }
                        }
                        if q4 && p4 {
                            if y2 <= y && x2 <= x { kani::assume(r2 <= r); }
                            if y2 >= y && x2 >= x { kani::assume(r2 >= r); }
                        }
                    }
                }
                i += 1;
            }
            r
        };
        assert!(ATAN2_N < CAP, "stub memo table overflow");
        ATAN2_K[ATAN2_N] = (y.to_bits(), x.to_bits());
        ATAN2_V[ATAN2_N] = r;
        ATAN2_N += 1;
        r
    }
}

/// `powi`: the code under test only ever squares
pub fn powi(x: f32, n: i32) -> f32 {
    if n == 2 {
        x * x
    } else {
        any_f32()
    }
}
