//! C14 (transform half) / C03 / C05: `Transformable for f32 / Interval / Grad`
//! applies the 4x4 homogeneous matrix to the position.
//!
//! The operands range over a lattice on which *real arithmetic is exact in
//! f32* (entries k/4 with small |k|, the homogeneous coordinate w a power of
//! two), so every correct implementation -- whatever its operation order or
//! fast paths -- must return exactly the mathematical result, and the
//! assertion can be exact without depending on how the code rounds:
//!   f32:      out_i == (M p)_i / (M p)_w
//!   Interval: out_i contains the transformed position of every point of the box
//!   Grad:     value lane as f32, derivative lanes == quotient rule of the
//!             affine forms (whatever seeds the caller supplied)
//! All entries of the matrix, including the projective bottom row, are symbolic.
use crate::gen_::*;
use crate::harness;
#[cfg(not(kani))]
use crate::kani;
use fidget_core::shape::Transformable;
use fidget_core::types::{Grad, Interval};
use nalgebra::Matrix4;

fn lat_mat<const K: i16>() -> Matrix4<f32> {
    Matrix4::new(
        latx::<K>(), latx::<K>(), latx::<K>(), latx::<K>(),
        latx::<K>(), latx::<K>(), latx::<K>(), latx::<K>(),
        latx::<K>(), latx::<K>(), latx::<K>(), latx::<K>(),
        latx::<K>(), latx::<K>(), latx::<K>(), latx::<K>(),
    )
}

fn pow2(w: f32) -> bool {
    let a = if w < 0.0 { -w } else { w };
    a == 0.5 || a == 1.0 || a == 2.0 || a == 4.0
}

/// row i of M applied to (x, y, z, 1); exact on the lattice
fn row(m: &Matrix4<f32>, i: usize, x: f32, y: f32, z: f32) -> f32 {
    m[(i, 0)] * x + m[(i, 1)] * y + m[(i, 2)] * z + m[(i, 3)]
}
/// linear part of row i applied to a direction (derivative seeds)
fn lin(m: &Matrix4<f32>, i: usize, x: f32, y: f32, z: f32) -> f32 {
    m[(i, 0)] * x + m[(i, 1)] * y + m[(i, 2)] * z
}

harness!(c14_t_tf_point, {
    let m = lat_mat::<8>();
    let (x, y, z) = (latx::<16>(), latx::<16>(), latx::<16>());
    let w = row(&m, 3, x, y, z);
    kani::assume(pow2(w));
    let (ox, oy, oz) = <f32 as Transformable>::transform(x, y, z, &m);
    assert!(same_val(ox, row(&m, 0, x, y, z) / w), "x is not row 0 of the matrix applied to the position, divided by w");
    assert!(same_val(oy, row(&m, 1, x, y, z) / w), "y is not row 1 of the matrix applied to the position, divided by w");
    assert!(same_val(oz, row(&m, 2, x, y, z) / w), "z is not row 2 of the matrix applied to the position, divided by w");
    kani::cover!(w == 2.0 && m[(3, 0)] != 0.0);
    kani::cover!(w == 0.5 && m[(3, 0)] == 0.0 && m[(3, 1)] == 0.0 && m[(3, 2)] == 0.0);
});

fn lat_box<const K: i16>() -> (Interval, f32) {
    let (a, b, p) = (latx::<K>(), latx::<K>(), latx::<K>());
    kani::assume(a <= p && p <= b);
    (Interval::new(a, b), p)
}

harness!(c14_x_tf_interval, {
    let m = lat_mat::<8>();
    let ((ix, px), (iy, py), (iz, pz)) = (lat_box::<8>(), lat_box::<8>(), lat_box::<8>());
    let w = row(&m, 3, px, py, pz);
    kani::assume(pow2(w));
    let (ox, oy, oz) = <Interval as Transformable>::transform(ix, iy, iz, &m);
    assert!(encloses(ox, row(&m, 0, px, py, pz) / w), "transformed box does not contain the transformed point (x)");
    assert!(encloses(oy, row(&m, 1, px, py, pz) / w), "transformed box does not contain the transformed point (y)");
    assert!(encloses(oz, row(&m, 2, px, py, pz) / w), "transformed box does not contain the transformed point (z)");
    kani::cover!(!ox.has_nan() && w == 2.0 && ix.lower() < ix.upper());
    kani::cover!(!ox.has_nan() && w == 0.5 && m[(3, 0)] == 0.0 && m[(3, 1)] == 0.0 && m[(3, 2)] == 0.0);
    kani::cover!(!oz.has_nan() && m[(3, 1)] != 0.0);
});

harness!(c14_x_tf_grad, {
    let m = lat_mat::<8>();
    let (x, y, z) = (latx_grad::<8>(), latx_grad::<8>(), latx_grad::<8>());
    let w = row(&m, 3, x.v, y.v, z.v);
    kani::assume(w == 0.5 || w == 1.0 || w == 2.0 || w == -1.0 || w == -2.0);
    let (ox, oy, oz) = <Grad as Transformable>::transform(x, y, z, &m);
    let outs = [ox, oy, oz];
    let i: usize = kani::any();
    kani::assume(i < 3);
    let o = outs[i];
    let n = row(&m, i, x.v, y.v, z.v);
    assert!(same_val(o.v, n / w), "value lane is not the transformed position");
    // d(n/w) = (n' w - n w') / w^2 for each seed lane
    let (ndx, wdx) = (lin(&m, i, x.dx, y.dx, z.dx), lin(&m, 3, x.dx, y.dx, z.dx));
    let (ndy, wdy) = (lin(&m, i, x.dy, y.dy, z.dy), lin(&m, 3, x.dy, y.dy, z.dy));
    let (ndz, wdz) = (lin(&m, i, x.dz, y.dz, z.dz), lin(&m, 3, x.dz, y.dz, z.dz));
    assert!(same_val(o.dx, (ndx * w - n * wdx) / (w * w)), "d/dx lane is not the derivative of the transformed position");
    assert!(same_val(o.dy, (ndy * w - n * wdy) / (w * w)), "d/dy lane is not the derivative of the transformed position");
    assert!(same_val(o.dz, (ndz * w - n * wdz) / (w * w)), "d/dz lane is not the derivative of the transformed position");
    kani::cover!(w == 2.0 && wdx != 0.0 && i == 1);
    kani::cover!(w == 0.5 && m[(3, 0)] == 0.0 && m[(3, 1)] == 0.0 && m[(3, 2)] == 0.0);
});

// ---- quick tier: the same obligations with the symbolic part of the matrix split in two classes (the full 16-entry
// versions above need > 10 min each under CBMC):
//   A_i: row i of the upper 3x4 block symbolic, the other upper rows those of the identity, bottom row (0, 0, 0, w)
//   B:   upper block = identity, all four entries of the projective bottom row symbolic
fn ident() -> Matrix4<f32> {
    // (Matrix4::identity() runs a 16-step iterator loop, beyond the unwind bound)
    Matrix4::new(1.0, 0.0, 0.0, 0.0, 0.0, 1.0, 0.0, 0.0, 0.0, 0.0, 1.0, 0.0, 0.0, 0.0, 0.0, 1.0)
}
fn mat_a(i: usize) -> Matrix4<f32> {
    mat_ak::<8>(i)
}
fn mat_ak<const K: i16>(i: usize) -> Matrix4<f32> {
    let mut m = ident();
    m[(i, 0)] = latx::<K>();
    m[(i, 1)] = latx::<K>();
    m[(i, 2)] = latx::<K>();
    m[(i, 3)] = latx::<K>();
    let w = latx::<16>();
    kani::assume(pow2(w));
    m[(3, 3)] = w;
    m
}
fn mat_b() -> Matrix4<f32> {
    let mut m = ident();
    m[(3, 0)] = latx::<8>();
    m[(3, 1)] = latx::<8>();
    m[(3, 2)] = latx::<8>();
    m[(3, 3)] = latx::<8>();
    m
}

fn point_body(m: Matrix4<f32>, i: usize) {
    let (x, y, z) = (latx::<16>(), latx::<16>(), latx::<16>());
    let w = row(&m, 3, x, y, z);
    kani::assume(pow2(w));
    let (ox, oy, oz) = <f32 as Transformable>::transform(x, y, z, &m);
    let o = [ox, oy, oz][i];
    assert!(same_val(o, row(&m, i, x, y, z) / w), "coordinate is not its row of the matrix applied to the position, divided by w");
    kani::cover!(w == 2.0);
    kani::cover!(w == 0.5);
}
fn interval_body<const K: i16>(m: Matrix4<f32>, i: usize) {
    let ((ix, px), (iy, py), (iz, pz)) = (lat_box::<K>(), lat_box::<K>(), lat_box::<K>());
    let w = row(&m, 3, px, py, pz);
    kani::assume(pow2(w));
    let (ox, oy, oz) = <Interval as Transformable>::transform(ix, iy, iz, &m);
    let o = [ox, oy, oz][i];
    assert!(encloses(o, row(&m, i, px, py, pz) / w), "transformed box does not contain the transformed point");
    kani::cover!(!o.has_nan() && w == 2.0 && ix.lower() < ix.upper());
    kani::cover!(!o.has_nan() && w == 0.5);
}
fn grad_body(m: Matrix4<f32>, i: usize) {
    let (x, y, z) = (latx_grad::<8>(), latx_grad::<8>(), latx_grad::<8>());
    let w = row(&m, 3, x.v, y.v, z.v);
    kani::assume(w == 0.5 || w == 1.0 || w == 2.0 || w == -1.0 || w == -2.0);
    let (ox, oy, oz) = <Grad as Transformable>::transform(x, y, z, &m);
    let o = [ox, oy, oz][i];
    let n = row(&m, i, x.v, y.v, z.v);
    assert!(same_val(o.v, n / w), "value lane is not the transformed position");
    let (ndx, wdx) = (lin(&m, i, x.dx, y.dx, z.dx), lin(&m, 3, x.dx, y.dx, z.dx));
    let (ndy, wdy) = (lin(&m, i, x.dy, y.dy, z.dy), lin(&m, 3, x.dy, y.dy, z.dy));
    let (ndz, wdz) = (lin(&m, i, x.dz, y.dz, z.dz), lin(&m, 3, x.dz, y.dz, z.dz));
    assert!(same_val(o.dx, (ndx * w - n * wdx) / (w * w)), "d/dx lane is not the derivative of the transformed position");
    assert!(same_val(o.dy, (ndy * w - n * wdy) / (w * w)), "d/dy lane is not the derivative of the transformed position");
    assert!(same_val(o.dz, (ndz * w - n * wdz) / (w * w)), "d/dz lane is not the derivative of the transformed position");
    kani::cover!(w == 2.0);
    kani::cover!(w == 0.5);
}
fn any_i() -> usize {
    let i: usize = kani::any();
    kani::assume(i < 3);
    i
}
harness!(c14_q_tfa0_point, { point_body(mat_a(0), 0) });
harness!(c14_q_tfa1_point, { point_body(mat_a(1), 1) });
harness!(c14_q_tfa2_point, { point_body(mat_a(2), 2) });
harness!(c14_q_tfb_point, { point_body(mat_b(), any_i()) });
// quick: lattice |k| <= 3 for the box and the symbolic row (about 1-2 min each); thorough: |k| <= 8 (about 7 min each)
harness!(c14_q_tfa0_interval, { interval_body::<3>(mat_ak::<3>(0), 0) });
harness!(c14_q_tfa1_interval, { interval_body::<3>(mat_ak::<3>(1), 1) });
harness!(c14_q_tfa2_interval, { interval_body::<3>(mat_ak::<3>(2), 2) });
harness!(c14_t_tfa0_interval, { interval_body::<8>(mat_a(0), 0) });
harness!(c14_t_tfa1_interval, { interval_body::<8>(mat_a(1), 1) });
harness!(c14_t_tfa2_interval, { interval_body::<8>(mat_a(2), 2) });
// (projective bottom row for boxes: > 10 min, not run)
harness!(c14_x_tfb_interval, { interval_body::<8>(mat_b(), any_i()) });
harness!(c14_q_tfa0_grad, { grad_body(mat_a(0), 0) });
harness!(c14_q_tfa1_grad, { grad_body(mat_a(1), 1) });
harness!(c14_q_tfa2_grad, { grad_body(mat_a(2), 2) });
// quick: one symbolic entry of the projective row (plus m33) per harness; thorough: the whole bottom row (about 8 min)
fn mat_bj(j: usize) -> Matrix4<f32> {
    let mut m = ident();
    m[(3, j)] = latx::<8>();
    m[(3, 3)] = latx::<8>();
    m
}
harness!(c14_q_tfb0_grad, { grad_body(mat_bj(0), any_i()) });
harness!(c14_q_tfb1_grad, { grad_body(mat_bj(1), any_i()) });
harness!(c14_q_tfb2_grad, { grad_body(mat_bj(2), any_i()) });
harness!(c14_t_tfb_grad, { grad_body(mat_b(), any_i()) });
