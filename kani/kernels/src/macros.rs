/// Declares a Kani proof harness with all libm contract stubs applied
#[macro_export]
macro_rules! harness {
    ($name:ident, $body:block) => {
        #[cfg_attr(kani, kani::proof)]
        #[cfg_attr(not(kani), test)]
        #[cfg_attr(kani, kani::unwind(8))]
        #[cfg_attr(kani, kani::stub(f32::sin, crate::stubs::sin))]
        #[cfg_attr(kani, kani::stub(f32::cos, crate::stubs::cos))]
        #[cfg_attr(kani, kani::stub(f32::tan, crate::stubs::tan))]
        #[cfg_attr(kani, kani::stub(f32::asin, crate::stubs::asin))]
        #[cfg_attr(kani, kani::stub(f32::acos, crate::stubs::acos))]
        #[cfg_attr(kani, kani::stub(f32::atan, crate::stubs::atan))]
        #[cfg_attr(kani, kani::stub(f32::exp, crate::stubs::exp))]
        #[cfg_attr(kani, kani::stub(f32::ln, crate::stubs::ln))]
        #[cfg_attr(kani, kani::stub(f32::sqrt, crate::stubs::sqrt))]
        #[cfg_attr(kani, kani::stub(f32::atan2, crate::stubs::atan2))]
        #[cfg_attr(kani, kani::stub(f32::powi, crate::stubs::powi))]
        fn $name() $body
    };
}
