//! C05: gradient kernels -- value lane equals the point kernel; derivative
//! lanes of selection-shaped kernels are exactly the selected operand's lanes
//! (arbitrary seeds); arithmetic kernels follow the textbook rule.
#[cfg(not(kani))]
use crate::kani;
use crate::gen_::*;
use crate::harness;
use fidget_core::context::{BinaryOpcode as B, UnaryOpcode as U};
use fidget_core::types::{FloatExt, Grad};

fn lanes_eq(a: Grad, b: Grad) -> bool {
    same_bits(a.dx, b.dx) && same_bits(a.dy, b.dy) && same_bits(a.dz, b.dz)
}
fn lanes_zero(a: Grad) -> bool {
    a.dx == 0.0 && a.dy == 0.0 && a.dz == 0.0
}
fn lanes_neg(a: Grad, b: Grad) -> bool {
    same_bits(a.dx, -b.dx) && same_bits(a.dy, -b.dy) && same_bits(a.dz, -b.dz)
}

macro_rules! gval_unary {
    ($name:ident, $op:expr, |$a:ident| $e:expr) => {
        harness!($name, {
            let $a = any_grad();
            let r: Grad = $e;
            let v = $op.eval($a.v);
            assert!(same_val(r.v, v), "value lane differs from the point kernel");
            kani::cover!(!v.is_nan());
        });
    };
}
macro_rules! gval_binary {
    ($name:ident, $op:expr, |$a:ident, $b:ident| $e:expr) => {
        harness!($name, {
            let $a = any_grad();
            let $b = any_grad();
            let r: Grad = $e;
            let v = $op.eval($a.v, $b.v);
            assert!(same_val(r.v, v), "value lane differs from the point kernel");
            kani::cover!(!v.is_nan());
        });
    };
}

gval_unary!(c05_q_val_neg, U::Neg, |a| -a);
gval_unary!(c05_q_val_abs, U::Abs, |a| a.abs());
gval_unary!(c05_q_val_sqrt, U::Sqrt, |a| a.sqrt());
gval_unary!(c05_q_val_floor, U::Floor, |a| a.floor());
gval_unary!(c05_q_val_ceil, U::Ceil, |a| a.ceil());
gval_unary!(c05_q_val_round, U::Round, |a| a.round());
gval_unary!(c05_q_val_sin, U::Sin, |a| a.sin());
gval_unary!(c05_q_val_cos, U::Cos, |a| a.cos());
gval_unary!(c05_q_val_tan, U::Tan, |a| a.tan());
gval_unary!(c05_q_val_asin, U::Asin, |a| a.asin());
gval_unary!(c05_q_val_acos, U::Acos, |a| a.acos());
gval_unary!(c05_q_val_atan, U::Atan, |a| a.atan());
gval_unary!(c05_q_val_exp, U::Exp, |a| a.exp());
gval_unary!(c05_q_val_ln, U::Ln, |a| a.ln());
gval_unary!(c05_q_val_not, U::Not, |a| a.not());
gval_unary!(c05_q_val_rand, U::Rand, |a| a.rand());
gval_binary!(c05_q_val_add, B::Add, |a, b| a + b);
gval_binary!(c05_q_val_sub, B::Sub, |a, b| a - b);
gval_binary!(c05_t_val_mul, B::Mul, |a, b| a * b);
gval_binary!(c05_q_val_atan2, B::Atan, |a, b| a.atan2(b));
gval_binary!(c05_q_val_min, B::Min, |a, b| a.min(b));
gval_binary!(c05_q_val_max, B::Max, |a, b| a.max(b));
gval_binary!(c05_q_val_compare, B::Compare, |a, b| a.compare(b));
gval_binary!(c05_q_val_and, B::And, |a, b| a.and(b));
gval_binary!(c05_q_val_or, B::Or, |a, b| a.or(b));
gval_binary!(c05_t_val_mix, B::Mix, |a, b| a.mix(b));

// The VM evaluates SquareReg as `v * v` on Grad
harness!(c05_t_val_square, {
    let a = any_grad();
    let r = a * a;
    assert!(same_val(r.v, U::Square.eval(a.v)));
    kani::cover!(!r.v.is_nan());
});
harness!(c05_t_val_mul_imm, {
    let a = any_grad();
    let k = any_f32();
    let r = a * k;
    assert!(same_val(r.v, B::Mul.eval(a.v, k)));
    kani::cover!(!r.v.is_nan());
});

// ---- derivative lanes: selection-shaped kernels, arbitrary seeds -----------
harness!(c05_q_d_min_max, {
    let a = any_grad();
    let b = any_grad();
    kani::assume(!a.v.is_nan() && !b.v.is_nan() && a.v != b.v); // away from ties
    let lo = a.min(b);
    let hi = a.max(b);
    if a.v < b.v {
        assert!(lanes_eq(lo, a) && lanes_eq(hi, b));
    } else {
        assert!(lanes_eq(lo, b) && lanes_eq(hi, a));
    }
    kani::cover!(a.v < b.v);
    kani::cover!(a.v > b.v);
});
harness!(c05_q_d_and_or, {
    let a = any_grad();
    let b = any_grad();
    let x = a.and(b);
    let y = a.or(b);
    if a.v == 0.0 {
        assert!(lanes_eq(x, a) && lanes_eq(y, b));
    } else {
        assert!(lanes_eq(x, b) && lanes_eq(y, a));
    }
    kani::cover!(a.v == 0.0);
    kani::cover!(a.v != 0.0);
});
harness!(c05_q_d_abs_neg, {
    let a = any_grad();
    kani::assume(a.v != 0.0 && !a.v.is_nan()); // abs is not differentiable at 0
    let r = a.abs();
    if a.v < 0.0 {
        assert!(lanes_neg(r, a));
    } else {
        assert!(lanes_eq(r, a));
    }
    let n = -a;
    assert!(lanes_neg(n, a));
    kani::cover!(a.v < 0.0);
    kani::cover!(a.v > 0.0);
});
harness!(c05_q_d_piecewise_constant, {
    let a = any_grad();
    let b = any_grad();
    assert!(lanes_zero(a.floor()) && lanes_zero(a.ceil()) && lanes_zero(a.round()));
    assert!(lanes_zero(a.not()) && lanes_zero(a.rand()));
    assert!(lanes_zero(a.compare(b)) && lanes_zero(a.mix(b)));
    kani::cover!(true);
});
harness!(c05_q_d_add_sub, {
    let a = any_grad();
    let b = any_grad();
    let s = a + b;
    let d = a - b;
    assert!(same_bits(s.dx, a.dx + b.dx) && same_bits(s.dy, a.dy + b.dy) && same_bits(s.dz, a.dz + b.dz));
    assert!(same_bits(d.dx, a.dx - b.dx) && same_bits(d.dy, a.dy - b.dy) && same_bits(d.dz, a.dz - b.dz));
    kani::cover!(!s.dx.is_nan());
});

// ---- derivative lanes: arithmetic rules on the lattice (exact there) -------
fn lane(g: Grad, i: usize) -> f32 {
    match i {
        0 => g.dx,
        1 => g.dy,
        _ => g.dz,
    }
}
// value lane of division: two independent divider circuits are not proved
// equivalent at full width in 10 min; decided on the lattice instead
harness!(c05_q_val_div, {
    let a = lat_grad::<15, 0>();
    let b = lat_grad::<15, 0>();
    let r = a / b;
    assert!(same_val(r.v, B::Div.eval(a.v, b.v)), "value lane differs from the point kernel");
    kani::cover!(!r.v.is_nan() && r.v != 0.0);
});

// On the pure lattice k/4 every intermediate of these rules is exact, so the
// f32 result must equal the *true* derivative (computed in f64) rounded once.
harness!(c05_q_d_mul, {
    let a = latx_grad::<15>();
    let b = latx_grad::<15>();
    let r = a * b;
    let i: usize = kani::any();
    kani::assume(i < 3);
    let want = (a.v as f64) * (lane(b, i) as f64) + (b.v as f64) * (lane(a, i) as f64);
    assert!(lane(r, i) as f64 == want, "product rule");
    kani::cover!(want != 0.0);
});
harness!(c05_q_d_mul_imm, {
    let a = latx_grad::<31>();
    let k = latx::<31>();
    let r = a * k;
    let i: usize = kani::any();
    kani::assume(i < 3);
    let want = (lane(a, i) as f64) * (k as f64);
    assert!(lane(r, i) as f64 == want, "scalar rule");
    kani::cover!(want != 0.0);
});
harness!(c05_q_d_div, {
    let a = latx_grad::<7>();
    let b = latx_grad::<7>();
    kani::assume(b.v != 0.0);
    let r = a / b;
    let i: usize = kani::any();
    kani::assume(i < 3);
    // (a'b - ab') / b^2: numerator and denominator exact, one rounding
    let num = (b.v as f64) * (lane(a, i) as f64) - (a.v as f64) * (lane(b, i) as f64);
    let den = (b.v as f64) * (b.v as f64);
    let want = (num / den) as f32;
    assert!(lane(r, i) == want, "quotient rule");
    kani::cover!(want != 0.0);
});
harness!(c05_q_d_recip, {
    let a = latx_grad::<31>();
    kani::assume(a.v != 0.0);
    let r = a.recip();
    let i: usize = kani::any();
    kani::assume(i < 3);
    let want = (-(lane(a, i) as f64) / ((a.v as f64) * (a.v as f64))) as f32;
    assert!(lane(r, i) == want, "reciprocal rule");
    kani::cover!(want != 0.0);
});
// chain rule wiring for libm-backed kernels, relative to the (functional)
// contract stubs: sin' = cos, cos' = -sin, exp' = exp, ln' = 1/v, ...
// Each lane is compared separately (a symbolic lane index would turn the
// comparison into an equivalence proof of multiplier/divider circuits).
macro_rules! lanes3 {
    ($r:expr, $a:expr, |$d:ident| $f:expr, $msg:expr) => {{
        let r = $r;
        let $d = $a.dx;
        assert!(same_bits(r.dx, $f), $msg);
        let $d = $a.dy;
        assert!(same_bits(r.dy, $f), $msg);
        let $d = $a.dz;
        assert!(same_bits(r.dz, $f), $msg);
    }};
}
harness!(c05_t_d_chain_trig, {
    let a = any_grad();
    lanes3!(a.sin(), a, |d| d * a.v.cos(), "sin' = cos");
    lanes3!(a.cos(), a, |d| d * -(a.v.sin()), "cos' = -sin");
    kani::cover!(!a.sin().dx.is_nan());
});
harness!(c05_t_d_chain_exp, {
    let a = any_grad();
    lanes3!(a.exp(), a, |d| a.v.exp() * d, "exp' = exp");
    kani::cover!(!a.exp().dx.is_nan());
});
// rules with a division: two divider circuits are not proved equivalent at
// full width within 10 min, so the operands range over the lattice
harness!(c05_q_d_chain_ln, {
    let a = lat_grad::<15, 0>();
    lanes3!(a.ln(), a, |d| d / a.v, "ln' = 1/v");
    kani::cover!(!a.ln().dx.is_nan() && a.ln().dx != 0.0);
});
// NOT decided (solver timeout > 10 min even on lattice seeds, because the
// divisor is an unconstrained stub value): the derivative lanes of sqrt, asin,
// acos, atan, tan.  Their value lanes are decided above.
harness!(c05_q_d_atan2, {
    let y = latx_grad::<5>();
    let x = latx_grad::<5>();
    kani::assume(x.v != 0.0 || y.v != 0.0);
    let r = y.atan2(x);
    let i: usize = kani::any();
    kani::assume(i < 3);
    let num = (x.v as f64) * (lane(y, i) as f64) - (y.v as f64) * (lane(x, i) as f64);
    let den = (x.v as f64) * (x.v as f64) + (y.v as f64) * (y.v as f64);
    let want = (num / den) as f32;
    assert!(lane(r, i) == want, "atan2 rule");
    kani::cover!(want != 0.0);
});

// ---- quick-tier lattice versions of the multiplier-heavy obligations -------
harness!(c05_q_val_mul_lat, {
    let a = lat_grad::<31, 0>();
    let b = lat_grad::<31, 0>();
    assert!(same_val((a * b).v, B::Mul.eval(a.v, b.v)));
    assert!(same_val((a * a).v, U::Square.eval(a.v)));
    let k = lat::<31, 0>();
    assert!(same_val((a * k).v, B::Mul.eval(a.v, k)));
    kani::cover!(!(a * b).v.is_nan() && (a * b).v != 0.0);
});
harness!(c05_q_val_mix_lat, {
    let a = lat_grad::<31, 0>();
    let b = lat_grad::<31, 0>();
    assert!(same_val(a.mix(b).v, B::Mix.eval(a.v, b.v)));
    kani::cover!(!a.mix(b).v.is_nan());
});
harness!(c05_q_val_recip_lat, {
    let a = lat_grad::<31, 0>();
    assert!(same_val(a.recip().v, U::Recip.eval(a.v)));
    kani::cover!(!a.recip().v.is_nan() && a.recip().v != 0.0);
});

// thorough-tier versions on the larger lattice
harness!(c05_t_d_div_k15, {
    let a = latx_grad::<15>();
    let b = latx_grad::<15>();
    kani::assume(b.v != 0.0);
    let r = a / b;
    let i: usize = kani::any();
    kani::assume(i < 3);
    let num = (b.v as f64) * (lane(a, i) as f64) - (a.v as f64) * (lane(b, i) as f64);
    let den = (b.v as f64) * (b.v as f64);
    assert!(lane(r, i) == (num / den) as f32, "quotient rule");
    kani::cover!(num != 0.0);
});
harness!(c05_t_d_mul_k31, {
    let a = latx_grad::<31>();
    let b = latx_grad::<31>();
    let r = a * b;
    let i: usize = kani::any();
    kani::assume(i < 3);
    let want = (a.v as f64) * (lane(b, i) as f64) + (b.v as f64) * (lane(a, i) as f64);
    assert!(lane(r, i) as f64 == want, "product rule");
    kani::cover!(want != 0.0);
});
