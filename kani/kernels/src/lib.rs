//! Kani harnesses over the real `fidget_core` value kernels
//! (`Interval`, `Grad`, `FloatExt for f32`, `Choice`).
//!
//! Harness naming: `<prop>_<tier>_<name>` where tier `q` = quick+thorough,
//! `t` = thorough only.  The driver (`/verif/check`) selects by substring.
#![allow(unused, static_mut_refs)]

#[cfg(not(kani))]
#[path = "../../shim.rs"]
pub mod kani_shim;
#[cfg(not(kani))]
pub use kani_shim as kani;

mod macros;
pub mod gen_;
pub mod stubs;

mod c03;
mod c05;
mod c11;
mod c14;
mod c20;
