//! Symbolic value generators
#[cfg(not(kani))]
use crate::kani;
use fidget_core::types::{Grad, Interval};

/// Arbitrary f32 bit pattern (all 2^32, including every NaN payload)
#[inline(never)]
pub fn any_f32() -> f32 {
    f32::from_bits(kani::any())
}

/// The validity predicate documented on `Interval::new`
pub fn valid(l: f32, u: f32) -> bool {
    l <= u || (l.is_nan() && u.is_nan())
}

pub fn ivalid(i: Interval) -> bool {
    valid(i.lower(), i.upper())
}

/// Arbitrary valid interval, full width (NaN interval, infinite endpoints,
/// degenerate, ±0 endpoints in either order are all included)
pub fn any_interval() -> Interval {
    let l = any_f32();
    let u = any_f32();
    kani::assume(valid(l, u));
    Interval::new(l, u)
}

/// Arbitrary member of a (non-NaN) interval
pub fn any_in(i: Interval) -> f32 {
    let a = any_f32();
    kani::assume(i.contains(a));
    a
}

/// Lattice value: `k * 2^-2 * 2^EXP` for |k| <= KMAX, plus specials.
///
/// On this lattice (EXP = 0) add/sub/mul are exact, so exact enclosure is the
/// right assertion; EXP = 60 / 120 make products and sums overflow to ±inf.
pub fn lat<const KMAX: i16, const EXP: i32>() -> f32 {
    let sel: u8 = kani::any();
    let k: i16 = kani::any();
    kani::assume(k >= -KMAX && k <= KMAX);
    let scale = match EXP {
        0 => 0.25f32,
        60 => 0.25f32 * 1152921504606846976.0f32,
        120 => 0.25f32 * 1152921504606846976.0f32 * 1152921504606846976.0f32,
        _ => unreachable!(),
    };
    match sel {
        0 => (k as f32) * scale,
        1 => 0.0,
        2 => -0.0,
        3 => f32::MIN_POSITIVE,
        4 => -f32::MIN_POSITIVE,
        5 => f32::MAX,
        6 => f32::MIN,
        7 => f32::INFINITY,
        8 => f32::NEG_INFINITY,
        9 => f32::NAN,
        10 => f32::from_bits(1),          // smallest denormal
        11 => f32::from_bits(0x8000_0001), // -smallest denormal
        _ => {
            kani::assume(false);
            0.0
        }
    }
}

pub fn lat_interval<const KMAX: i16, const EXP: i32>() -> Interval {
    let l = lat::<KMAX, EXP>();
    let u = lat::<KMAX, EXP>();
    kani::assume(valid(l, u));
    Interval::new(l, u)
}

pub fn lat_in<const KMAX: i16, const EXP: i32>(i: Interval) -> f32 {
    let a = lat::<KMAX, EXP>();
    kani::assume(i.contains(a));
    a
}

pub fn any_grad() -> Grad {
    Grad::new(any_f32(), any_f32(), any_f32(), any_f32())
}

pub fn lat_grad<const KMAX: i16, const EXP: i32>() -> Grad {
    Grad::new(
        lat::<KMAX, EXP>(),
        lat::<KMAX, EXP>(),
        lat::<KMAX, EXP>(),
        lat::<KMAX, EXP>(),
    )
}

/// NaN == NaN, otherwise bit-identical
pub fn same_bits(a: f32, b: f32) -> bool {
    (a.is_nan() && b.is_nan()) || a.to_bits() == b.to_bits()
}

/// NaN == NaN, otherwise numerically equal (so +0 == -0)
pub fn same_val(a: f32, b: f32) -> bool {
    (a.is_nan() && b.is_nan()) || a == b
}

/// The enclosure relation of property C03 (exact form)
pub fn encloses(r: Interval, p: f32) -> bool {
    r.has_nan() || p.is_nan() || r.contains(p)
}

/// Pure lattice value `k/4`, |k| <= KMAX (no specials): sums and products of
/// a few of these are exact in f32
pub fn latx<const KMAX: i16>() -> f32 {
    let k: i16 = kani::any();
    kani::assume(k >= -KMAX && k <= KMAX);
    (k as f32) * 0.25
}
pub fn latx_grad<const KMAX: i16>() -> Grad {
    Grad::new(latx::<KMAX>(), latx::<KMAX>(), latx::<KMAX>(), latx::<KMAX>())
}
