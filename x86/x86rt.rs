//! x86rt: a small executable model of the x86-64 / AVX2 subset emitted by
//! fidget-jit's assemblers.  The lifter (`/verif/lib/lifter.py`) turns the
//! disassembly of the *real* machine code into straight calls into this
//! module; the same source is compiled
//!   * natively, to validate the model against the actual JIT function running
//!     on this CPU (every run), and
//!   * under Kani, to decide the properties for all register/memory contents.
//!
//! Registers: 16 GPRs, 16 YMM registers as 8 x u32 lanes, ZF/PF/CF/SF/OF.
//! Memory: a handful of disjoint regions at fixed concrete addresses; every
//! access is bounds-checked (an access outside all regions is a failed
//! assertion = out-of-bounds access by the JIT code).
#![allow(unused, non_snake_case, clippy::all)]

pub const RAX: u8 = 0;
pub const RCX: u8 = 1;
pub const RDX: u8 = 2;
pub const RBX: u8 = 3;
pub const RSP: u8 = 4;
pub const RBP: u8 = 5;
pub const RSI: u8 = 6;
pub const RDI: u8 = 7;
pub const NONE: u8 = 16;

#[derive(Copy, Clone, Debug)]
pub enum O {
    R64(u8),
    R32(u8),
    R8(u8),
    X(u8),
    Y(u8),
    I(i64),
    /// base, index, scale, disp, size in bytes
    M(u8, u8, u8, i64, u8),
}
pub use O::*;

/// Memory is held as 32-bit words in banks of 64 words, so that every array the
/// solver sees is small enough for CBMC's field-sensitive (scalarised)
/// treatment; all accesses made by the JIT code are at concrete addresses.
pub const REGION: usize = 128;
pub const RWORDS: usize = REGION / 4;
pub const BANK: usize = 64;
pub const SBANKS: usize = 7;
pub const STACK_LEN: usize = SBANKS * BANK * 4; // 0x700
/// Initial rsp (points at the return address); the frame grows down from here
pub const STACK_TOP: u64 = 0x7000_0008; // = 8 (mod 16), as on entry after a `call`
/// Bytes above the initial rsp that belong to the caller (must stay intact)
pub const CALLER_FRAME: usize = 0x40;
pub const STACK_BASE: u64 = STACK_TOP + CALLER_FRAME as u64 - STACK_LEN as u64;

/// Region ids
pub const R_A: usize = 0; // first pointer argument (rdi)
pub const R_B: usize = 1; // second pointer argument (rsi)
pub const R_C: usize = 2; // third pointer argument (rdx)
pub const R_D: usize = 3; // fourth pointer argument (rcx)
pub const R_E: usize = 4; // data behind pointer arrays (inputs)
pub const R_F: usize = 5; // data behind pointer arrays (outputs)
pub const NREG: usize = 6;
pub const BASES: [u64; NREG] = [0x1000_0000, 0x2000_0000, 0x3000_0000, 0x4000_0000, 0x5000_0000, 0x6000_0000];

#[derive(Clone)]
pub struct M {
    pub g: [u64; 16],
    pub y: [[u32; 8]; 16],
    pub zf: bool,
    pub pf: bool,
    pub cf: bool,
    pub sf: bool,
    pub of: bool,
    pub stack: [[u32; BANK]; SBANKS],
    pub mem: [[u32; RWORDS]; NREG],
    /// valid length of each region (accesses beyond it are out of bounds)
    pub len: [usize; NREG],
    /// set when an access falls outside every region
    pub oob: bool,
    /// number of `ret` executed
    pub returned: bool,
}

fn f(x: u32) -> f32 {
    f32::from_bits(x)
}
fn b(x: f32) -> u32 {
    x.to_bits()
}
fn mask(c: bool) -> u32 {
    if c { 0xFFFF_FFFF } else { 0 }
}

impl M {
    // ---- memory ---------------------------------------------------------
    fn addr(&self, o: O) -> (u64, usize) {
        match o {
            M(base, index, scale, disp, size) => {
                let mut a = disp as u64;
                if base != NONE {
                    a = a.wrapping_add(self.g[base as usize]);
                }
                if index != NONE {
                    a = a.wrapping_add(self.g[index as usize].wrapping_mul(scale as u64));
                }
                (a, size as usize)
            }
            _ => panic!("not a memory operand"),
        }
    }
    /// Word-granular access; returns None when outside every region
    fn locate(&self, a: u64) -> Option<(usize, usize)> {
        // (region id or NREG for the stack, word index)
        if a >= STACK_BASE && a < STACK_BASE + STACK_LEN as u64 {
            return Some((NREG, ((a - STACK_BASE) / 4) as usize));
        }
        let mut i = 0;
        while i < NREG {
            if a >= BASES[i] && a < BASES[i] + self.len[i] as u64 {
                return Some((i, ((a - BASES[i]) / 4) as usize));
            }
            i += 1;
        }
        None
    }
    fn word(&self, loc: (usize, usize)) -> u32 {
        if loc.0 == NREG { self.stack[loc.1 / BANK][loc.1 % BANK] } else { self.mem[loc.0][loc.1] }
    }
    fn set_word(&mut self, loc: (usize, usize), v: u32) {
        if loc.0 == NREG { self.stack[loc.1 / BANK][loc.1 % BANK] = v } else { self.mem[loc.0][loc.1] = v }
    }
    pub fn load8(&mut self, a: u64) -> u8 {
        match self.locate(a) {
            Some(loc) => (self.word(loc) >> (8 * (a % 4))) as u8,
            None => {
                self.oob = true;
                0
            }
        }
    }
    pub fn store8(&mut self, a: u64, v: u8) {
        match self.locate(a) {
            Some(loc) => {
                let sh = 8 * (a % 4);
                let w = (self.word(loc) & !(0xFFu32 << sh)) | ((v as u32) << sh);
                self.set_word(loc, w);
            }
            None => self.oob = true,
        }
    }
    pub fn load32(&mut self, a: u64) -> u32 {
        if a % 4 != 0 {
            // the JIT never makes misaligned accesses; treat as out of model
            self.oob = true;
            return 0;
        }
        // the last byte must be inside the region as well
        match (self.locate(a), self.locate(a + 3)) {
            (Some(loc), Some(_)) => self.word(loc),
            _ => {
                self.oob = true;
                0
            }
        }
    }
    pub fn store32(&mut self, a: u64, v: u32) {
        if a % 4 != 0 {
            self.oob = true;
            return;
        }
        match (self.locate(a), self.locate(a + 3)) {
            (Some(loc), Some(_)) => self.set_word(loc, v),
            _ => self.oob = true,
        }
    }
    pub fn load64(&mut self, a: u64) -> u64 {
        (self.load32(a) as u64) | ((self.load32(a + 4) as u64) << 32)
    }
    pub fn store64(&mut self, a: u64, v: u64) {
        self.store32(a, v as u32);
        self.store32(a + 4, (v >> 32) as u32);
    }

    // ---- integer operands -----------------------------------------------
    fn width(o: O) -> u32 {
        match o {
            R64(_) => 64,
            R32(_) => 32,
            R8(_) => 8,
            M(_, _, _, _, s) => 8 * s as u32,
            _ => 64,
        }
    }
    fn rd(&mut self, o: O) -> u64 {
        match o {
            R64(r) => self.g[r as usize],
            R32(r) => self.g[r as usize] & 0xFFFF_FFFF,
            R8(r) => self.g[r as usize] & 0xFF,
            I(v) => v as u64,
            M(..) => {
                let (a, s) = self.addr(o);
                match s {
                    1 => self.load8(a) as u64,
                    4 => self.load32(a) as u64,
                    8 => self.load64(a),
                    _ => panic!("bad int load size"),
                }
            }
            _ => panic!("bad int operand"),
        }
    }
    fn wr(&mut self, o: O, v: u64) {
        match o {
            R64(r) => self.g[r as usize] = v,
            R32(r) => self.g[r as usize] = v & 0xFFFF_FFFF, // zero-extends
            R8(r) => self.g[r as usize] = (self.g[r as usize] & !0xFF) | (v & 0xFF),
            M(..) => {
                let (a, s) = self.addr(o);
                match s {
                    1 => self.store8(a, v as u8),
                    4 => self.store32(a, v as u32),
                    8 => self.store64(a, v),
                    _ => panic!("bad int store size"),
                }
            }
            _ => panic!("bad int destination"),
        }
    }
    fn trunc(w: u32, v: u64) -> u64 {
        if w >= 64 { v } else { v & ((1u64 << w) - 1) }
    }
    fn flags_logic(&mut self, w: u32, r: u64) {
        let r = Self::trunc(w, r);
        self.zf = r == 0;
        self.sf = (r >> (w - 1)) & 1 == 1;
        self.pf = (r as u8).count_ones() % 2 == 0;
        self.cf = false;
        self.of = false;
    }
    pub fn mov(&mut self, d: O, s: O) {
        let v = self.rd(s);
        // `mov r64, imm32` sign-extends; the lifter passes the value as i64
        self.wr(d, v);
    }
    pub fn movabs(&mut self, d: O, s: O) {
        self.mov(d, s)
    }
    pub fn add(&mut self, d: O, s: O) {
        let w = Self::width(d);
        let (a, c) = (Self::trunc(w, self.rd(d)), Self::trunc(w, self.rd(s)));
        let r = Self::trunc(w, a.wrapping_add(c));
        self.wr(d, r);
        self.flags_logic(w, r);
        self.cf = r < a;
        self.of = ((a ^ r) & (c ^ r)) >> (w - 1) & 1 == 1;
    }
    pub fn sub(&mut self, d: O, s: O) {
        let w = Self::width(d);
        let (a, c) = (Self::trunc(w, self.rd(d)), Self::trunc(w, self.rd(s)));
        let r = Self::trunc(w, a.wrapping_sub(c));
        self.wr(d, r);
        self.flags_logic(w, r);
        self.cf = a < c;
        self.of = ((a ^ c) & (a ^ r)) >> (w - 1) & 1 == 1;
    }
    pub fn cmp(&mut self, d: O, s: O) {
        let w = Self::width(d);
        let (a, c) = (Self::trunc(w, self.rd(d)), Self::trunc(w, self.rd(s)));
        let r = Self::trunc(w, a.wrapping_sub(c));
        self.flags_logic(w, r);
        self.cf = a < c;
        self.of = ((a ^ c) & (a ^ r)) >> (w - 1) & 1 == 1;
    }
    pub fn test(&mut self, d: O, s: O) {
        let w = Self::width(d);
        let r = self.rd(d) & self.rd(s);
        self.flags_logic(w, r);
    }
    pub fn and(&mut self, d: O, s: O) {
        let w = Self::width(d);
        let r = Self::trunc(w, self.rd(d) & self.rd(s));
        self.wr(d, r);
        self.flags_logic(w, r);
    }
    pub fn or(&mut self, d: O, s: O) {
        let w = Self::width(d);
        let r = Self::trunc(w, self.rd(d) | self.rd(s));
        self.wr(d, r);
        self.flags_logic(w, r);
    }
    pub fn xor(&mut self, d: O, s: O) {
        let w = Self::width(d);
        let r = Self::trunc(w, self.rd(d) ^ self.rd(s));
        self.wr(d, r);
        self.flags_logic(w, r);
    }
    pub fn inc(&mut self, d: O) {
        let w = Self::width(d);
        let cf = self.cf;
        let r = Self::trunc(w, self.rd(d).wrapping_add(1));
        self.wr(d, r);
        self.flags_logic(w, r);
        self.cf = cf;
    }
    pub fn shr(&mut self, d: O, s: O) {
        let w = Self::width(d);
        let n = (self.rd(s) as u32) & (if w == 64 { 63 } else { 31 });
        let a = Self::trunc(w, self.rd(d));
        let r = if n == 0 { a } else { a >> n };
        self.wr(d, r);
        if n != 0 {
            self.flags_logic(w, r);
            self.cf = (a >> (n - 1)) & 1 == 1;
        }
    }
    pub fn shrx(&mut self, d: O, s: O, c: O) {
        let w = Self::width(d);
        let n = (self.rd(c) as u32) & (if w == 64 { 63 } else { 31 });
        let a = Self::trunc(w, self.rd(s));
        self.wr(d, a >> n);
    }
    pub fn imul3(&mut self, d: O, s: O, i: O) {
        let w = Self::width(d);
        let r = Self::trunc(w, self.rd(s).wrapping_mul(self.rd(i)));
        self.wr(d, r);
        // CF/OF defined, ZF/SF/PF undefined: never consumed by the JIT code
    }
    pub fn sete(&mut self, d: O) {
        let v = self.zf as u64;
        self.wr(d, v);
    }
    pub fn setnp(&mut self, d: O) {
        let v = (!self.pf) as u64;
        self.wr(d, v);
    }
    pub fn push(&mut self, s: O) {
        let v = self.rd(s);
        self.g[RSP as usize] = self.g[RSP as usize].wrapping_sub(8);
        let a = self.g[RSP as usize];
        self.store64(a, v);
    }
    pub fn pop(&mut self, d: O) {
        let a = self.g[RSP as usize];
        let v = self.load64(a);
        self.g[RSP as usize] = a.wrapping_add(8);
        self.wr(d, v);
    }
    pub fn ret(&mut self) {
        self.g[RSP as usize] = self.g[RSP as usize].wrapping_add(8);
        self.returned = true;
    }
    // condition codes
    pub fn cc_a(&self) -> bool {
        !self.cf && !self.zf
    }
    pub fn cc_b(&self) -> bool {
        self.cf
    }
    pub fn cc_e(&self) -> bool {
        self.zf
    }
    pub fn cc_ne(&self) -> bool {
        !self.zf
    }
    pub fn cc_p(&self) -> bool {
        self.pf
    }
    pub fn cc_np(&self) -> bool {
        !self.pf
    }

    // ---- vector helpers ---------------------------------------------------
    fn vreg(o: O) -> (usize, usize) {
        match o {
            X(r) => (r as usize, 4),
            Y(r) => (r as usize, 8),
            _ => panic!("not a vector register"),
        }
    }
    /// Reads n lanes of a vector operand (register or memory)
    fn vrd(&mut self, o: O, n: usize) -> [u32; 8] {
        let mut out = [0u32; 8];
        match o {
            X(r) | Y(r) => {
                let mut i = 0;
                while i < n {
                    out[i] = self.y[r as usize][i];
                    i += 1;
                }
            }
            M(..) => {
                let (a, s) = self.addr(o);
                let mut i = 0;
                while i < n && i * 4 < s {
                    out[i] = self.load32(a + 4 * i as u64);
                    i += 1;
                }
            }
            _ => panic!("bad vector operand"),
        }
        out
    }
    /// VEX-encoded write: lanes [0, n) written, everything above zeroed
    fn vwr(&mut self, d: O, v: [u32; 8], n: usize) {
        let (r, _) = Self::vreg(d);
        let mut i = 0;
        while i < 8 {
            self.y[r][i] = if i < n { v[i] } else { 0 };
            i += 1;
        }
    }
    /// Legacy-SSE write: lanes [0, n) written, others preserved
    fn swr(&mut self, d: O, v: [u32; 8], n: usize) {
        let (r, _) = Self::vreg(d);
        let mut i = 0;
        while i < n {
            self.y[r][i] = v[i];
            i += 1;
        }
    }
    fn lanes(o: O) -> usize {
        match o {
            X(_) => 4,
            Y(_) => 8,
            _ => panic!("no lanes"),
        }
    }
    fn map2(&mut self, d: O, a: O, c: O, op: fn(u32, u32) -> u32) {
        let n = Self::lanes(d);
        let (va, vc) = (self.vrd(a, n), self.vrd(c, n));
        let mut r = [0u32; 8];
        let mut i = 0;
        while i < n {
            r[i] = op(va[i], vc[i]);
            i += 1;
        }
        self.vwr(d, r, n);
    }
    /// VEX scalar op: lane 0 = op(a0, c0), lanes 1..3 from a, upper zeroed
    fn scalar3(&mut self, d: O, a: O, c: O, op: fn(u32, u32) -> u32) {
        let va = self.vrd(a, 4);
        let vc = self.vrd(c, 1);
        let mut r = va;
        r[0] = op(va[0], vc[0]);
        self.vwr(d, r, 4);
    }
    /// legacy scalar op: lane 0 = op(d0, s0), everything else preserved
    fn scalar2(&mut self, d: O, s: O, op: fn(u32, u32) -> u32) {
        let vd = self.vrd(d, 1);
        let vs = self.vrd(s, 1);
        let mut r = [0u32; 8];
        r[0] = op(vd[0], vs[0]);
        self.swr(d, r, 1);
    }

    // scalar float kernels with x86 semantics
    fn k_add(a: u32, c: u32) -> u32 { b(f(a) + f(c)) }
    fn k_sub(a: u32, c: u32) -> u32 { b(f(a) - f(c)) }
    fn k_mul(a: u32, c: u32) -> u32 { b(f(a) * f(c)) }
    fn k_div(a: u32, c: u32) -> u32 { b(f(a) / f(c)) }
    fn k_sqrt(_a: u32, c: u32) -> u32 { b(f(c).sqrt()) }
    /// MINSS/MINPS: if both zero, or either NaN, the second operand
    fn k_min(a: u32, c: u32) -> u32 { if f(a) < f(c) { a } else { c } }
    fn k_max(a: u32, c: u32) -> u32 { if f(a) > f(c) { a } else { c } }
    fn k_and(a: u32, c: u32) -> u32 { a & c }
    fn k_or(a: u32, c: u32) -> u32 { a | c }
    fn k_xor(a: u32, c: u32) -> u32 { a ^ c }
    fn k_cmpeq(a: u32, c: u32) -> u32 { mask(f(a) == f(c)) }
    fn k_cmplt(a: u32, c: u32) -> u32 { mask(f(a) < f(c)) }
    fn k_cmpgt(a: u32, c: u32) -> u32 { mask(f(a) > f(c)) }
    fn k_cmpunord(a: u32, c: u32) -> u32 { mask(f(a).is_nan() || f(c).is_nan()) }
    fn k_paddd(a: u32, c: u32) -> u32 { a.wrapping_add(c) }
    fn k_pmulld(a: u32, c: u32) -> u32 { a.wrapping_mul(c) }
    fn k_pcmpeqd(a: u32, c: u32) -> u32 { mask(a == c) }
    fn k_pcmpeqw(a: u32, c: u32) -> u32 {
        (if a & 0xFFFF == c & 0xFFFF { 0xFFFF } else { 0 }) | (if a >> 16 == c >> 16 { 0xFFFF_0000 } else { 0 })
    }
    fn k_psrlvd(a: u32, c: u32) -> u32 { if c > 31 { 0 } else { a >> c } }

    pub fn vaddss(&mut self, d: O, a: O, c: O) { self.scalar3(d, a, c, Self::k_add) }
    pub fn vsubss(&mut self, d: O, a: O, c: O) { self.scalar3(d, a, c, Self::k_sub) }
    pub fn vmulss(&mut self, d: O, a: O, c: O) { self.scalar3(d, a, c, Self::k_mul) }
    pub fn vdivss(&mut self, d: O, a: O, c: O) { self.scalar3(d, a, c, Self::k_div) }
    pub fn vsqrtss(&mut self, d: O, a: O, c: O) { self.scalar3(d, a, c, Self::k_sqrt) }
    pub fn vminss(&mut self, d: O, a: O, c: O) { self.scalar3(d, a, c, Self::k_min) }
    pub fn vmaxss(&mut self, d: O, a: O, c: O) { self.scalar3(d, a, c, Self::k_max) }
    pub fn vcmpeqss(&mut self, d: O, a: O, c: O) { self.scalar3(d, a, c, Self::k_cmpeq) }
    pub fn vcmpltss(&mut self, d: O, a: O, c: O) { self.scalar3(d, a, c, Self::k_cmplt) }
    pub fn vcmpgtss(&mut self, d: O, a: O, c: O) { self.scalar3(d, a, c, Self::k_cmpgt) }
    pub fn addss(&mut self, d: O, s: O) { self.scalar2(d, s, Self::k_add) }
    pub fn mulss(&mut self, d: O, s: O) { self.scalar2(d, s, Self::k_mul) }
    pub fn divss(&mut self, d: O, s: O) { self.scalar2(d, s, Self::k_div) }
    pub fn sqrtss(&mut self, d: O, s: O) { self.scalar2(d, s, Self::k_sqrt) }

    pub fn vaddps(&mut self, d: O, a: O, c: O) { self.map2(d, a, c, Self::k_add) }
    pub fn vsubps(&mut self, d: O, a: O, c: O) { self.map2(d, a, c, Self::k_sub) }
    pub fn vmulps(&mut self, d: O, a: O, c: O) { self.map2(d, a, c, Self::k_mul) }
    pub fn vdivps(&mut self, d: O, a: O, c: O) { self.map2(d, a, c, Self::k_div) }
    pub fn vminps(&mut self, d: O, a: O, c: O) { self.map2(d, a, c, Self::k_min) }
    pub fn vmaxps(&mut self, d: O, a: O, c: O) { self.map2(d, a, c, Self::k_max) }
    pub fn vandps(&mut self, d: O, a: O, c: O) { self.map2(d, a, c, Self::k_and) }
    pub fn vandpd(&mut self, d: O, a: O, c: O) { self.map2(d, a, c, Self::k_and) }
    pub fn vpand(&mut self, d: O, a: O, c: O) { self.map2(d, a, c, Self::k_and) }
    pub fn vorps(&mut self, d: O, a: O, c: O) { self.map2(d, a, c, Self::k_or) }
    pub fn vorpd(&mut self, d: O, a: O, c: O) { self.map2(d, a, c, Self::k_or) }
    pub fn vpor(&mut self, d: O, a: O, c: O) { self.map2(d, a, c, Self::k_or) }
    pub fn vxorps(&mut self, d: O, a: O, c: O) { self.map2(d, a, c, Self::k_xor) }
    pub fn vxorpd(&mut self, d: O, a: O, c: O) { self.map2(d, a, c, Self::k_xor) }
    pub fn vpxor(&mut self, d: O, a: O, c: O) { self.map2(d, a, c, Self::k_xor) }
    pub fn vcmpeqps(&mut self, d: O, a: O, c: O) { self.map2(d, a, c, Self::k_cmpeq) }
    pub fn vcmpltps(&mut self, d: O, a: O, c: O) { self.map2(d, a, c, Self::k_cmplt) }
    pub fn vcmpgtps(&mut self, d: O, a: O, c: O) { self.map2(d, a, c, Self::k_cmpgt) }
    pub fn vcmpunordps(&mut self, d: O, a: O, c: O) { self.map2(d, a, c, Self::k_cmpunord) }
    pub fn vpaddd(&mut self, d: O, a: O, c: O) { self.map2(d, a, c, Self::k_paddd) }
    pub fn vpmulld(&mut self, d: O, a: O, c: O) { self.map2(d, a, c, Self::k_pmulld) }
    pub fn vpcmpeqd(&mut self, d: O, a: O, c: O) { self.map2(d, a, c, Self::k_pcmpeqd) }
    pub fn vpcmpeqw(&mut self, d: O, a: O, c: O) { self.map2(d, a, c, Self::k_pcmpeqw) }
    pub fn vpsrlvd(&mut self, d: O, a: O, c: O) { self.map2(d, a, c, Self::k_psrlvd) }
    pub fn vsqrtps(&mut self, d: O, s: O) {
        let n = Self::lanes(d);
        let v = self.vrd(s, n);
        let mut r = [0u32; 8];
        let mut i = 0;
        while i < n {
            r[i] = b(f(v[i]).sqrt());
            i += 1;
        }
        self.vwr(d, r, n);
    }
    // legacy (non-VEX) packed forms: destination lanes above 128 bits preserved
    fn smap2(&mut self, d: O, s: O, op: fn(u32, u32) -> u32) {
        let (va, vc) = (self.vrd(d, 4), self.vrd(s, 4));
        let mut r = [0u32; 8];
        let mut i = 0;
        while i < 4 {
            r[i] = op(va[i], vc[i]);
            i += 1;
        }
        self.swr(d, r, 4);
    }
    pub fn pcmpeqd(&mut self, d: O, s: O) { self.smap2(d, s, Self::k_pcmpeqd) }
    pub fn pcmpeqw(&mut self, d: O, s: O) { self.smap2(d, s, Self::k_pcmpeqw) }
    pub fn pxor(&mut self, d: O, s: O) { self.smap2(d, s, Self::k_xor) }

    fn shift_imm(&mut self, d: O, s: O, i: O, left: bool, vex: bool) {
        let n = if vex { Self::lanes(d) } else { 4 };
        let k = self.rd(i) as u32;
        let v = self.vrd(s, n);
        let mut r = [0u32; 8];
        let mut j = 0;
        while j < n {
            r[j] = if k > 31 { 0 } else if left { v[j] << k } else { v[j] >> k };
            j += 1;
        }
        if vex { self.vwr(d, r, n) } else { self.swr(d, r, n) }
    }
    pub fn vpslld(&mut self, d: O, s: O, i: O) { self.shift_imm(d, s, i, true, true) }
    pub fn vpsrld(&mut self, d: O, s: O, i: O) { self.shift_imm(d, s, i, false, true) }
    pub fn pslld(&mut self, d: O, i: O) { self.shift_imm(d, d, i, true, false) }
    pub fn psrld(&mut self, d: O, i: O) { self.shift_imm(d, d, i, false, false) }
    pub fn vpsllq(&mut self, d: O, s: O, i: O) {
        let n = Self::lanes(d);
        let k = self.rd(i) as u32;
        let v = self.vrd(s, n);
        let mut r = [0u32; 8];
        let mut j = 0;
        while j < n {
            let q = (v[j] as u64) | ((v[j + 1] as u64) << 32);
            let q = if k > 63 { 0 } else { q << k };
            r[j] = q as u32;
            r[j + 1] = (q >> 32) as u32;
            j += 2;
        }
        self.vwr(d, r, n);
    }

    fn round_mode(v: f32, imm: u64) -> f32 {
        match imm & 7 {
            0 => v.round_ties_even(),
            1 => v.floor(),
            2 => v.ceil(),
            3 => v.trunc(),
            _ => panic!("rounding mode from MXCSR is not modelled"),
        }
    }
    pub fn vroundss(&mut self, d: O, a: O, c: O, i: O) {
        let imm = self.rd(i);
        let va = self.vrd(a, 4);
        let vc = self.vrd(c, 1);
        let mut r = va;
        r[0] = b(Self::round_mode(f(vc[0]), imm));
        self.vwr(d, r, 4);
    }
    pub fn vroundps(&mut self, d: O, s: O, i: O) {
        let imm = self.rd(i);
        let n = Self::lanes(d);
        let v = self.vrd(s, n);
        let mut r = [0u32; 8];
        let mut j = 0;
        while j < n {
            r[j] = b(Self::round_mode(f(v[j]), imm));
            j += 1;
        }
        self.vwr(d, r, n);
    }
    fn comi(&mut self, a: O, c: O) {
        let x = f(self.vrd(a, 1)[0]);
        let y = f(self.vrd(c, 1)[0]);
        self.of = false;
        self.sf = false;
        if x.is_nan() || y.is_nan() {
            self.zf = true;
            self.pf = true;
            self.cf = true;
        } else if x > y {
            self.zf = false;
            self.pf = false;
            self.cf = false;
        } else if x < y {
            self.zf = false;
            self.pf = false;
            self.cf = true;
        } else {
            self.zf = true;
            self.pf = false;
            self.cf = false;
        }
    }
    pub fn vcomiss(&mut self, a: O, c: O) { self.comi(a, c) }
    pub fn vucomiss(&mut self, a: O, c: O) { self.comi(a, c) }
    pub fn comiss(&mut self, a: O, c: O) { self.comi(a, c) }

    // ---- moves -----------------------------------------------------------
    /// vmovss: 3-register merge form, or load/store
    pub fn vmovss3(&mut self, d: O, a: O, c: O) {
        let va = self.vrd(a, 4);
        let vc = self.vrd(c, 1);
        let mut r = va;
        r[0] = vc[0];
        self.vwr(d, r, 4);
    }
    pub fn vmovss(&mut self, d: O, s: O) {
        match (d, s) {
            (X(_), M(..)) => {
                let v = self.vrd(s, 1);
                self.vwr(d, v, 1); // load zeroes the rest
            }
            (M(..), X(_)) => {
                let v = self.vrd(s, 1);
                let (a, _) = self.addr(d);
                self.store32(a, v[0]);
            }
            _ => panic!("vmovss form"),
        }
    }
    pub fn vmovsd3(&mut self, d: O, a: O, c: O) {
        let va = self.vrd(a, 4);
        let vc = self.vrd(c, 2);
        let mut r = va;
        r[0] = vc[0];
        r[1] = vc[1];
        self.vwr(d, r, 4);
    }
    pub fn vmovsd(&mut self, d: O, s: O) {
        match (d, s) {
            (X(_), M(..)) => {
                let v = self.vrd(s, 2);
                self.vwr(d, v, 2);
            }
            (M(..), X(_)) => {
                let v = self.vrd(s, 2);
                let (a, _) = self.addr(d);
                self.store32(a, v[0]);
                self.store32(a + 4, v[1]);
            }
            _ => panic!("vmovsd form"),
        }
    }
    /// legacy movss: reg-reg merges lane 0; load zeroes lanes 1..3 (upper ymm kept); store
    pub fn movss(&mut self, d: O, s: O) {
        match (d, s) {
            (X(_), X(_)) => {
                let v = self.vrd(s, 1);
                self.swr(d, v, 1);
            }
            (X(_), M(..)) => {
                let v = self.vrd(s, 1);
                self.swr(d, [v[0], 0, 0, 0, 0, 0, 0, 0], 4);
            }
            (M(..), X(_)) => {
                let v = self.vrd(s, 1);
                let (a, _) = self.addr(d);
                self.store32(a, v[0]);
            }
            _ => panic!("movss form"),
        }
    }
    pub fn movaps(&mut self, d: O, s: O) {
        let v = self.vrd(s, 4);
        self.swr(d, v, 4);
    }
    pub fn vmovaps(&mut self, d: O, s: O) {
        let n = Self::lanes(d);
        let v = self.vrd(s, n);
        self.vwr(d, v, n);
    }
    pub fn vmovups(&mut self, d: O, s: O) {
        match d {
            M(..) => {
                let n = Self::lanes(s);
                let v = self.vrd(s, n);
                let (a, _) = self.addr(d);
                let mut i = 0;
                while i < n {
                    self.store32(a + 4 * i as u64, v[i]);
                    i += 1;
                }
            }
            _ => {
                let n = Self::lanes(d);
                let v = self.vrd(s, n);
                self.vwr(d, v, n);
            }
        }
    }
    /// movd / vmovd between GPR or memory and xmm
    fn movd_impl(&mut self, d: O, s: O, vex: bool) {
        match (d, s) {
            (X(_), R32(_)) | (X(_), R64(_)) => {
                let v = self.rd(s) as u32;
                if vex { self.vwr(d, [v, 0, 0, 0, 0, 0, 0, 0], 4) } else { self.swr(d, [v, 0, 0, 0, 0, 0, 0, 0], 4) }
            }
            (X(_), M(..)) => {
                let v = self.vrd(s, 1);
                if vex { self.vwr(d, v, 1) } else { self.swr(d, [v[0], 0, 0, 0, 0, 0, 0, 0], 4) }
            }
            (M(..), X(_)) => {
                let v = self.vrd(s, 1);
                let (a, _) = self.addr(d);
                self.store32(a, v[0]);
            }
            (R32(_), X(_)) => {
                let v = self.vrd(s, 1);
                self.wr(d, v[0] as u64);
            }
            _ => panic!("movd form"),
        }
    }
    pub fn movd(&mut self, d: O, s: O) { self.movd_impl(d, s, false) }
    pub fn vmovd(&mut self, d: O, s: O) { self.movd_impl(d, s, true) }
    fn movq_impl(&mut self, d: O, s: O, vex: bool) {
        match (d, s) {
            (R64(_), X(_)) => {
                let v = self.vrd(s, 2);
                self.wr(d, (v[0] as u64) | ((v[1] as u64) << 32));
            }
            (X(_), R64(_)) => {
                let q = self.rd(s);
                let v = [q as u32, (q >> 32) as u32, 0, 0, 0, 0, 0, 0];
                if vex { self.vwr(d, v, 4) } else { self.swr(d, v, 4) }
            }
            (X(_), M(..)) => {
                let v = self.vrd(s, 2);
                let v = [v[0], v[1], 0, 0, 0, 0, 0, 0];
                if vex { self.vwr(d, v, 4) } else { self.swr(d, v, 4) }
            }
            (X(_), X(_)) => {
                let v = self.vrd(s, 2);
                let v = [v[0], v[1], 0, 0, 0, 0, 0, 0];
                if vex { self.vwr(d, v, 4) } else { self.swr(d, v, 4) }
            }
            (M(..), X(_)) => {
                let v = self.vrd(s, 2);
                let (a, _) = self.addr(d);
                self.store32(a, v[0]);
                self.store32(a + 4, v[1]);
            }
            _ => panic!("movq form"),
        }
    }
    pub fn movq(&mut self, d: O, s: O) { self.movq_impl(d, s, false) }
    pub fn vmovq(&mut self, d: O, s: O) { self.movq_impl(d, s, true) }
    pub fn vbroadcastss(&mut self, d: O, s: O) {
        let n = Self::lanes(d);
        let v = self.vrd(s, 1)[0];
        self.vwr(d, [v; 8], n);
    }
    pub fn vpbroadcastd(&mut self, d: O, s: O) { self.vbroadcastss(d, s) }
    fn shuf(v: [u32; 8], imm: u64, base: usize) -> [u32; 4] {
        [
            v[base + (imm & 3) as usize],
            v[base + ((imm >> 2) & 3) as usize],
            v[base + ((imm >> 4) & 3) as usize],
            v[base + ((imm >> 6) & 3) as usize],
        ]
    }
    pub fn vpshufd(&mut self, d: O, s: O, i: O) {
        let n = Self::lanes(d);
        let imm = self.rd(i);
        let v = self.vrd(s, n);
        let mut r = [0u32; 8];
        let lo = Self::shuf(v, imm, 0);
        r[0] = lo[0]; r[1] = lo[1]; r[2] = lo[2]; r[3] = lo[3];
        if n == 8 {
            let hi = Self::shuf(v, imm, 4);
            r[4] = hi[0]; r[5] = hi[1]; r[6] = hi[2]; r[7] = hi[3];
        }
        self.vwr(d, r, n);
    }
    pub fn pshufd(&mut self, d: O, s: O, i: O) {
        let imm = self.rd(i);
        let v = self.vrd(s, 4);
        let lo = Self::shuf(v, imm, 0);
        self.swr(d, [lo[0], lo[1], lo[2], lo[3], 0, 0, 0, 0], 4);
    }
    pub fn vunpcklps(&mut self, d: O, a: O, c: O) {
        let n = Self::lanes(d);
        let (va, vc) = (self.vrd(a, n), self.vrd(c, n));
        let mut r = [0u32; 8];
        r[0] = va[0]; r[1] = vc[0]; r[2] = va[1]; r[3] = vc[1];
        if n == 8 { r[4] = va[4]; r[5] = vc[4]; r[6] = va[5]; r[7] = vc[5]; }
        self.vwr(d, r, n);
    }
    pub fn vpunpckldq(&mut self, d: O, a: O, c: O) { self.vunpcklps(d, a, c) }
    pub fn vpunpcklqdq(&mut self, d: O, a: O, c: O) {
        let n = Self::lanes(d);
        let (va, vc) = (self.vrd(a, n), self.vrd(c, n));
        let mut r = [0u32; 8];
        r[0] = va[0]; r[1] = va[1]; r[2] = vc[0]; r[3] = vc[1];
        if n == 8 { r[4] = va[4]; r[5] = va[5]; r[6] = vc[4]; r[7] = vc[5]; }
        self.vwr(d, r, n);
    }
    pub fn vpinsrd(&mut self, d: O, a: O, s: O, i: O) {
        let imm = (self.rd(i) & 3) as usize;
        let mut v = self.vrd(a, 4);
        v[imm] = self.rd(s) as u32;
        self.vwr(d, v, 4);
    }
    pub fn vzeroupper(&mut self) {
        let mut r = 0;
        while r < 16 {
            let mut i = 4;
            while i < 8 {
                self.y[r][i] = 0;
                i += 1;
            }
            r += 1;
        }
    }
}
