#!/bin/sh
# Offline setup: nothing to fetch; warm the build directories so the first
# check does not pay the full dependency build (optional, failures ignored).
set -e
cd "$(dirname "$0")"
mkdir -p .build evidence replays
python3 -c "import json,sys; json.load(open('MANIFEST.json'))"
exit 0
