"""x86-64/AVX2 subset -> SMT-LIB terms (symbolic execution with concrete
control structure).

Values are either Python ints (concrete bit-vectors) or SMT term strings.
Registers: 16 GPRs (64-bit), 16 YMM registers as 8 lanes of 32 bits, flags.
Memory: dictionary from 4-aligned concrete address to a 32-bit value; every
address the code touches must be concrete (it is: the JIT only addresses its
arguments and its own frame) and inside an allowed region, otherwise the
access is recorded as out of bounds.
"""
import re

M64 = (1 << 64) - 1
M32 = (1 << 32) - 1


class Unsupported(Exception):
    pass


def bv(v, w):
    if w % 4 == 0:
        return "#x%0*x" % (w // 4, v & ((1 << w) - 1))
    return "#b" + format(v & ((1 << w) - 1), "0%db" % w)


def T(v, w):
    """SMT term of a value of width w."""
    return bv(v, w) if isinstance(v, int) else v


def is_c(*vs):
    return all(isinstance(v, int) for v in vs)


# ---- float helpers (32-bit patterns <-> FloatingPoint 8 24) ------------------

def fp(v):
    return "((_ to_fp 8 24) %s)" % T(v, 32)


def fp2bv(t):
    return "(fp.to_ieee_bv %s)" % t


# Off for the interval model, whose two sides build differently-shaped terms for
# equal values: there the program order, which the assembler keeps, is the
# common order.
NORMALIZE = True


def fop(op, a, b, rm="RNE"):
    """IEEE binary op on 32-bit patterns.  Addition and multiplication are
    commutative (NaN payloads aside) and x + x == 2 * x exactly: both are
    normalised here so that the machine-code side and the specification side
    produce syntactically equal terms wherever they agree up to these laws."""
    a, b = T(a, 32), T(b, 32)
    if not NORMALIZE:
        return fp2bv("(fp.%s %s %s %s)" % (op, rm, fp(a), fp(b)))
    if op == "add" and a == b:
        op, a = "mul", bv(0x40000000, 32)
    if op in ("add", "mul") and b < a:
        a, b = b, a
    return fp2bv("(fp.%s %s %s %s)" % (op, rm, fp(a), fp(b)))


def ite(c, a, b, w=32):
    if c == "true":
        return a
    if c == "false":
        return b
    return "(ite %s %s %s)" % (c, T(a, w), T(b, w))


def band(*cs):
    cs = [c for c in cs if c != "true"]
    if any(c == "false" for c in cs):
        return "false"
    if not cs:
        return "true"
    return cs[0] if len(cs) == 1 else "(and %s)" % " ".join(cs)


def bnot(c):
    if c == "true":
        return "false"
    if c == "false":
        return "true"
    return "(not %s)" % c


def bor(*cs):
    cs = [c for c in cs if c != "false"]
    if any(c == "true" for c in cs):
        return "true"
    if not cs:
        return "false"
    return cs[0] if len(cs) == 1 else "(or %s)" % " ".join(cs)


class Region:
    def __init__(self, name, base, length, writable=True):
        self.name, self.base, self.length, self.writable = name, base, length, writable


class Machine:
    def __init__(self, decls, regions, stack_top, stack_len, prefix="s"):
        self.decls = decls  # shared list of SMT declarations (appended to)
        self.declared = set()
        self.prefix = prefix
        self.g = [self.sym("g%d" % i, 64) for i in range(16)]
        self.y = [[self.sym("y%d_%d" % (r, l), 32) for l in range(8)] for r in range(16)]
        self.fl = {k: self.symb("f_" + k) for k in ("zf", "pf", "cf", "sf", "of")}
        self.mem = {}
        self.regions = regions
        self.stack_top = stack_top
        self.stack_lo = stack_top - stack_len
        self.caller_hi = stack_top + 0x40
        self.oob = []
        self.writes = set()
        self.returned = False
        self.fresh = 0
        self.calls = 0

    def clone(self):
        import copy

        m = copy.copy(self)
        m.g = list(self.g)
        m.y = [list(r) for r in self.y]
        m.fl = dict(self.fl)
        m.mem = dict(self.mem)
        m.oob = list(self.oob)
        m.writes = set(self.writes)
        return m

    # -- symbols -------------------------------------------------------------
    def sym(self, name, w):
        name = "%s_%s" % (self.prefix, name)
        if name not in self.declared:
            self.declared.add(name)
            self.decls.append("(declare-const %s (_ BitVec %d))" % (name, w))
        return name

    def symb(self, name):
        name = "%s_%s" % (self.prefix, name)
        if name not in self.declared:
            self.declared.add(name)
            self.decls.append("(declare-const %s Bool)" % name)
        return name

    def junk(self, w, what="junk"):
        self.fresh += 1
        return self.sym("%s%d" % (what, self.fresh), w)

    # -- memory --------------------------------------------------------------
    def allowed(self, a, write):
        if self.stack_lo <= a < self.caller_hi:
            return True
        for r in self.regions:
            if r.base <= a < r.base + r.length:
                return (not write) or r.writable
        return False

    def load32(self, a):
        if not isinstance(a, int):
            raise Unsupported("symbolic address")
        if a % 4:
            raise Unsupported("misaligned 32-bit access at %x" % a)
        if not (self.allowed(a, False) and self.allowed(a + 3, False)):
            self.oob.append(("read", a))
            return self.junk(32, "oob")
        if a not in self.mem:
            self.mem[a] = self.sym("mem_%x" % a, 32)
        return self.mem[a]

    def store32(self, a, v):
        if not isinstance(a, int):
            raise Unsupported("symbolic address")
        if a % 4:
            raise Unsupported("misaligned 32-bit access at %x" % a)
        if not (self.allowed(a, True) and self.allowed(a + 3, True)):
            self.oob.append(("write", a))
            return
        self.mem[a] = v
        self.writes.add(a)

    def load8(self, a):
        w = self.load32(a & ~3)
        sh = 8 * (a & 3)
        if is_c(w):
            return (w >> sh) & 0xFF
        return "((_ extract %d %d) %s)" % (sh + 7, sh, w)

    def store8(self, a, v):
        base = a & ~3
        w = self.load32(base)
        sh = 8 * (a & 3)
        if is_c(w, v):
            self.store32(base, (w & ~(0xFF << sh)) | (v << sh))
            return
        parts = []
        for i in (3, 2, 1, 0):
            if i == (a & 3):
                parts.append(T(v, 8))
            else:
                parts.append("((_ extract %d %d) %s)" % (8 * i + 7, 8 * i, T(w, 32)))
        self.store32(base, "(concat %s)" % " ".join(parts))

    def load64(self, a):
        lo, hi = self.load32(a), self.load32(a + 4)
        if is_c(lo, hi):
            return lo | (hi << 32)
        return "(concat %s %s)" % (T(hi, 32), T(lo, 32))

    def store64(self, a, v):
        if is_c(v):
            self.store32(a, v & M32)
            self.store32(a + 4, v >> 32)
        else:
            self.store32(a, "((_ extract 31 0) %s)" % v)
            self.store32(a + 4, "((_ extract 63 32) %s)" % v)


# ---- operands --------------------------------------------------------------

class Op:
    pass


def addr(m, o):
    _, base, index, scale, disp, size = o
    a = disp
    if base is not None:
        b = m.g[base]
        if not is_c(b):
            raise Unsupported("symbolic base register")
        a += b
    if index is not None:
        i = m.g[index]
        if not is_c(i):
            raise Unsupported("symbolic index register")
        a += i * scale
    return a & M64


def width(o):
    k = o[0]
    return {"r64": 64, "r32": 32, "r8": 8}.get(k) or (8 * o[5] if k == "m" else 64)


def trunc(v, w):
    if w >= 64:
        return v
    if is_c(v):
        return v & ((1 << w) - 1)
    return v  # terms are kept at their own width by construction


def rd(m, o, w=None):
    k = o[0]
    if k == "r64":
        return m.g[o[1]]
    if k == "r32":
        v = m.g[o[1]]
        return v & M32 if is_c(v) else "((_ extract 31 0) %s)" % v
    if k == "r8":
        v = m.g[o[1]]
        return v & 0xFF if is_c(v) else "((_ extract 7 0) %s)" % v
    if k == "i":
        w = w or 64
        return o[1] & ((1 << w) - 1)
    if k == "m":
        a = addr(m, o)
        return {1: m.load8, 4: m.load32, 8: m.load64}[o[5]](a)
    raise Unsupported("integer operand %r" % (o,))


def wr(m, o, v):
    k = o[0]
    if k == "r64":
        m.g[o[1]] = v
    elif k == "r32":
        m.g[o[1]] = v & M32 if is_c(v) else "((_ zero_extend 32) %s)" % v
    elif k == "r8":
        old = m.g[o[1]]
        if is_c(old, v):
            m.g[o[1]] = (old & ~0xFF) | (v & 0xFF)
        else:
            m.g[o[1]] = "(concat ((_ extract 63 8) %s) %s)" % (T(old, 64), T(v, 8))
    elif k == "m":
        a = addr(m, o)
        {1: m.store8, 4: m.store32, 8: m.store64}[o[5]](a, v)
    else:
        raise Unsupported("integer destination %r" % (o,))


def binop(name, a, b, w, pyf):
    if is_c(a, b):
        return pyf(a, b) & ((1 << w) - 1)
    return "(%s %s %s)" % (name, T(a, w), T(b, w))


def set_flags_result(m, r, w):
    if is_c(r):
        m.fl["zf"] = "true" if r == 0 else "false"
        m.fl["sf"] = "true" if (r >> (w - 1)) & 1 else "false"
        m.fl["pf"] = "true" if bin(r & 0xFF).count("1") % 2 == 0 else "false"
    else:
        m.fl["zf"] = "(= %s %s)" % (r, bv(0, w))
        m.fl["sf"] = "(= ((_ extract %d %d) %s) #b1)" % (w - 1, w - 1, r)
        x = "((_ extract 7 0) %s)" % r
        bits = " ".join("((_ extract %d %d) %s)" % (i, i, x) for i in range(8))
        m.fl["pf"] = "(= (bvxor %s) #b0)" % bits
    m.fl["cf"] = "false"
    m.fl["of"] = "false"


def ult(a, b, w):
    if is_c(a, b):
        return "true" if a < b else "false"
    return "(bvult %s %s)" % (T(a, w), T(b, w))


# ---- vector helpers ----------------------------------------------------------

def vlanes(o):
    return 4 if o[0] == "x" else 8


def vrd(m, o, n):
    if o[0] in ("x", "y"):
        return list(m.y[o[1]][:n])
    if o[0] == "m":
        a = addr(m, o)
        return [m.load32(a + 4 * i) for i in range(min(n, o[5] // 4))] + [0] * max(0, n - o[5] // 4)
    raise Unsupported("vector operand %r" % (o,))


def vwr(m, d, v, n):
    """VEX write: lanes [0,n) written, the rest zeroed."""
    r = d[1]
    for i in range(8):
        m.y[r][i] = v[i] if i < n else 0


def swr(m, d, v, n):
    r = d[1]
    for i in range(n):
        m.y[r][i] = v[i]


def fcmp(op, a, b):
    return "(fp.%s %s %s)" % (op, fp(a), fp(b))


def isnan(a):
    return "(fp.isNaN %s)" % fp(a)


def mask(c):
    if c == "true":
        return M32
    if c == "false":
        return 0
    return "(ite %s #xffffffff #x00000000)" % c


K = {
    "add": lambda a, b: fop("add", a, b),
    "sub": lambda a, b: fop("sub", a, b),
    "mul": lambda a, b: fop("mul", a, b),
    "div": lambda a, b: fop("div", a, b),
    # MINSS/MINPS: second operand if either is NaN or both are zero
    "min": lambda a, b: ite(fcmp("lt", a, b), a, b),
    "max": lambda a, b: ite(fcmp("gt", a, b), a, b),
    "and": lambda a, b: binop("bvand", a, b, 32, lambda x, y: x & y),
    "or": lambda a, b: binop("bvor", a, b, 32, lambda x, y: x | y),
    "xor": lambda a, b: binop("bvxor", a, b, 32, lambda x, y: x ^ y),
    "cmpeq": lambda a, b: mask(fcmp("eq", a, b)),
    "cmplt": lambda a, b: mask(fcmp("lt", a, b)),
    "cmpgt": lambda a, b: mask(fcmp("gt", a, b)),
    "cmpunord": lambda a, b: mask(bor(isnan(a), isnan(b))),
    # ANDN: (NOT first source) AND second source
    "andn": lambda a, b: ((~a) & b & M32) if is_c(a, b) else "(bvand (bvnot %s) %s)" % (T(a, 32), T(b, 32)),
    "paddd": lambda a, b: binop("bvadd", a, b, 32, lambda x, y: x + y),
    "pmulld": lambda a, b: binop("bvmul", a, b, 32, lambda x, y: x * y),
    "pcmpeqd": lambda a, b: (M32 if a == b else 0) if is_c(a, b) else mask("(= %s %s)" % (T(a, 32), T(b, 32))),
    # VPSRLVD: counts above 31 give 0 -- exactly SMT-LIB's bvlshr
    "psrlvd": lambda a, b: ((a >> b) if b < 32 else 0) if is_c(a, b) else "(bvlshr %s %s)" % (T(a, 32), T(b, 32)),
}


def k_pcmpeqw(a, b):
    if is_c(a, b):
        return (0xFFFF if (a & 0xFFFF) == (b & 0xFFFF) else 0) | (0xFFFF0000 if (a >> 16) == (b >> 16) else 0)
    lo = "(ite (= ((_ extract 15 0) %s) ((_ extract 15 0) %s)) #xffff #x0000)" % (T(a, 32), T(b, 32))
    hi = "(ite (= ((_ extract 31 16) %s) ((_ extract 31 16) %s)) #xffff #x0000)" % (T(a, 32), T(b, 32))
    return "(concat %s %s)" % (hi, lo)


K["pcmpeqw"] = k_pcmpeqw

SCALAR3 = {"vaddss": "add", "vsubss": "sub", "vmulss": "mul", "vdivss": "div", "vminss": "min", "vmaxss": "max",
           "vcmpeqss": "cmpeq", "vcmpltss": "cmplt", "vcmpgtss": "cmpgt"}
SCALAR2 = {"addss": "add", "mulss": "mul", "divss": "div"}
PACKED3 = {"vandnps": "andn", "vandnpd": "andn", "vpandn": "andn", "vaddps": "add", "vsubps": "sub", "vmulps": "mul", "vdivps": "div", "vminps": "min", "vmaxps": "max",
           "vandps": "and", "vandpd": "and", "vpand": "and", "vorps": "or", "vorpd": "or", "vpor": "or", "vxorps": "xor",
           "vxorpd": "xor", "vpxor": "xor", "vcmpeqps": "cmpeq", "vcmpltps": "cmplt", "vcmpgtps": "cmpgt",
           "vcmpunordps": "cmpunord", "vpaddd": "paddd", "vpmulld": "pmulld", "vpcmpeqd": "pcmpeqd",
           "vpcmpeqw": "pcmpeqw", "vpsrlvd": "psrlvd"}
LEGACY2 = {"pcmpeqd": "pcmpeqd", "pcmpeqw": "pcmpeqw", "pxor": "xor"}
RM = {0: "RNE", 1: "RTN", 2: "RTP", 3: "RTZ"}


def fsqrt(a):
    return fp2bv("(fp.sqrt RNE %s)" % fp(a))


def fround(a, imm):
    if imm & 4:
        raise Unsupported("rounding mode from MXCSR")
    return fp2bv("(fp.roundToIntegral %s %s)" % (RM[imm & 3], fp(a)))


def shift32(a, k, left):
    if k > 31:
        return 0
    if is_c(a):
        return ((a << k) if left else (a >> k)) & M32
    return "(%s %s %s)" % ("bvshl" if left else "bvlshr", a, bv(k, 32))


def comi(m, a, b):
    x, y = vrd(m, a, 1)[0], vrd(m, b, 1)[0]
    un = bor(isnan(x), isnan(y))
    m.fl["of"] = "false"
    m.fl["sf"] = "false"
    m.fl["zf"] = bor(un, fcmp("eq", x, y))
    m.fl["pf"] = un
    m.fl["cf"] = bor(un, fcmp("lt", x, y))


CC = {
    "ja": lambda f: band(bnot(f["cf"]), bnot(f["zf"])),
    "jb": lambda f: f["cf"],
    "je": lambda f: f["zf"],
    "jz": lambda f: f["zf"],
    "jne": lambda f: bnot(f["zf"]),
    "jnz": lambda f: bnot(f["zf"]),
    "jp": lambda f: f["pf"],
    "jnp": lambda f: bnot(f["pf"]),
}


def step(m, mn, o, call_hook):
    """Executes one non-branch instruction."""
    n_ops = len(o)
    if mn in ("mov", "movabs"):
        w = width(o[0])
        wr(m, o[0], rd(m, o[1], w))
    elif mn in ("add", "sub", "cmp"):
        w = width(o[0])
        a, b = rd(m, o[0], w), rd(m, o[1], w)
        if mn == "add":
            r = binop("bvadd", a, b, w, lambda x, y: x + y)
            cf = ult(r, a, w)
        else:
            r = binop("bvsub", a, b, w, lambda x, y: x - y)
            cf = ult(a, b, w)
        if mn != "cmp":
            wr(m, o[0], r)
        set_flags_result(m, r, w)
        m.fl["cf"] = cf
        m.fl["of"] = m.junk_bool() if False else "false"
    elif mn == "test":
        w = width(o[0])
        set_flags_result(m, binop("bvand", rd(m, o[0], w), rd(m, o[1], w), w, lambda x, y: x & y), w)
    elif mn in ("and", "or", "xor"):
        w = width(o[0])
        f = {"and": ("bvand", lambda x, y: x & y), "or": ("bvor", lambda x, y: x | y), "xor": ("bvxor", lambda x, y: x ^ y)}[mn]
        if mn == "xor" and o[0] == o[1]:
            r = 0
        else:
            r = binop(f[0], rd(m, o[0], w), rd(m, o[1], w), w, f[1])
        wr(m, o[0], r)
        set_flags_result(m, r, w)
    elif mn == "inc":
        w = width(o[0])
        cf = m.fl["cf"]
        r = binop("bvadd", rd(m, o[0], w), 1, w, lambda x, y: x + y)
        wr(m, o[0], r)
        set_flags_result(m, r, w)
        m.fl["cf"] = cf
    elif mn == "shr":
        w = width(o[0])
        k = rd(m, o[1], 8) & (63 if w == 64 else 31)
        a = rd(m, o[0], w)
        r = (a >> k) if is_c(a) else ("(bvlshr %s %s)" % (a, bv(k, w)) if k else a)
        wr(m, o[0], r)
        if k:
            set_flags_result(m, r, w)
    elif mn == "shrx":
        w = width(o[0])
        a, c = rd(m, o[1], w), rd(m, o[2], w)
        if is_c(a, c):
            r = a >> (c & (w - 1))
        else:
            r = "(bvlshr %s (bvand %s %s))" % (T(a, w), T(c, w), bv(w - 1, w))
        wr(m, o[0], r)
    elif mn == "imul":
        if n_ops != 3:
            raise Unsupported("imul form")
        w = width(o[0])
        wr(m, o[0], binop("bvmul", rd(m, o[1], w), rd(m, o[2], w), w, lambda x, y: x * y))
    elif mn in ("sete", "setnp"):
        c = m.fl["zf"] if mn == "sete" else bnot(m.fl["pf"])
        wr(m, o[0], 1 if c == "true" else 0 if c == "false" else "(ite %s #x01 #x00)" % c)
    elif mn == "push":
        m.g[4] = (m.g[4] - 8) & M64
        m.store64(m.g[4], rd(m, o[0], 64))
    elif mn == "pop":
        v = m.load64(m.g[4])
        m.g[4] = (m.g[4] + 8) & M64
        wr(m, o[0], v)
    elif mn in SCALAR3:
        va, vc = vrd(m, o[1], 4), vrd(m, o[2], 1)
        r = list(va)
        r[0] = K[SCALAR3[mn]](va[0], vc[0])
        vwr(m, o[0], r + [0] * 4, 4)
    elif mn == "vsqrtss":
        va, vc = vrd(m, o[1], 4), vrd(m, o[2], 1)
        vwr(m, o[0], [fsqrt(vc[0])] + va[1:4] + [0] * 4, 4)
    elif mn in SCALAR2:
        vd, vs = vrd(m, o[0], 1), vrd(m, o[1], 1)
        swr(m, o[0], [K[SCALAR2[mn]](vd[0], vs[0])], 1)
    elif mn == "sqrtss":
        swr(m, o[0], [fsqrt(vrd(m, o[1], 1)[0])], 1)
    elif mn in PACKED3:
        n = vlanes(o[0])
        va, vc = vrd(m, o[1], n), vrd(m, o[2], n)
        if PACKED3[mn] == "xor" and o[1] == o[2]:
            vwr(m, o[0], [0] * 8, n)
        elif PACKED3[mn] in ("pcmpeqd", "pcmpeqw") and o[1] == o[2]:
            vwr(m, o[0], [M32] * 8, n)
        else:
            vwr(m, o[0], [K[PACKED3[mn]](va[i], vc[i]) for i in range(n)] + [0] * (8 - n), n)
    elif mn in LEGACY2:
        va, vc = vrd(m, o[0], 4), vrd(m, o[1], 4)
        if o[0] == o[1]:
            swr(m, o[0], [0 if LEGACY2[mn] == "xor" else M32] * 4, 4)
        else:
            swr(m, o[0], [K[LEGACY2[mn]](va[i], vc[i]) for i in range(4)], 4)
    elif mn == "vsqrtps":
        n = vlanes(o[0])
        v = vrd(m, o[1], n)
        vwr(m, o[0], [fsqrt(x) for x in v] + [0] * (8 - n), n)
    elif mn in ("vpslld", "vpsrld"):
        n = vlanes(o[0])
        k = rd(m, o[2], 8)
        v = vrd(m, o[1], n)
        vwr(m, o[0], [shift32(x, k, mn == "vpslld") for x in v] + [0] * (8 - n), n)
    elif mn == "vpsrad":
        n = vlanes(o[0])
        k = min(rd(m, o[2], 8), 31)
        v = vrd(m, o[1], n)
        r = []
        for x in v:
            if is_c(x):
                sx = x - (1 << 32) if x & 0x80000000 else x
                r.append((sx >> k) & M32)
            else:
                r.append("(bvashr %s %s)" % (x, bv(k, 32)))
        vwr(m, o[0], r + [0] * (8 - n), n)
    elif mn in ("pslld", "psrld"):
        k = rd(m, o[1], 8)
        v = vrd(m, o[0], 4)
        swr(m, o[0], [shift32(x, k, mn == "pslld") for x in v], 4)
    elif mn == "vpsllq":
        n = vlanes(o[0])
        k = rd(m, o[2], 8)
        v = vrd(m, o[1], n)
        r = []
        for j in range(0, n, 2):
            lo, hi = v[j], v[j + 1]
            if k == 32:
                r += [0, lo]
            else:
                raise Unsupported("vpsllq by %d" % k)
        vwr(m, o[0], r + [0] * (8 - n), n)
    elif mn == "vroundss":
        imm = rd(m, o[3], 8)
        va, vc = vrd(m, o[1], 4), vrd(m, o[2], 1)
        vwr(m, o[0], [fround(vc[0], imm)] + va[1:4] + [0] * 4, 4)
    elif mn == "vroundps":
        imm = rd(m, o[2], 8)
        n = vlanes(o[0])
        v = vrd(m, o[1], n)
        vwr(m, o[0], [fround(x, imm) for x in v] + [0] * (8 - n), n)
    elif mn in ("vcomiss", "vucomiss", "comiss"):
        comi(m, o[0], o[1])
    elif mn == "vmovss" and n_ops == 3:
        va, vc = vrd(m, o[1], 4), vrd(m, o[2], 1)
        vwr(m, o[0], [vc[0]] + va[1:4] + [0] * 4, 4)
    elif mn == "vmovsd" and n_ops == 3:
        va, vc = vrd(m, o[1], 4), vrd(m, o[2], 2)
        vwr(m, o[0], vc[:2] + va[2:4] + [0] * 4, 4)
    elif mn in ("vmovss", "vmovsd", "vmovq", "movq", "movss", "movd", "vmovd") and n_ops == 2:
        nl = 2 if mn in ("vmovsd", "vmovq", "movq") else 1
        vex = mn.startswith("v")
        d, s = o
        if d[0] == "x" and s[0] == "m":
            v = vrd(m, s, nl)
            if vex:
                vwr(m, d, v + [0] * (8 - nl), nl)
            else:
                swr(m, d, v + [0] * (4 - nl), 4)
        elif d[0] == "m" and s[0] == "x":
            v = vrd(m, s, nl)
            a = addr(m, d)
            for i in range(nl):
                m.store32(a + 4 * i, v[i])
        elif d[0] == "x" and s[0] == "x":
            v = vrd(m, s, nl)
            if mn == "movss":
                swr(m, d, v, 1)
            elif mn in ("vmovq", "movq"):
                (vwr if vex else swr)(m, d, v + [0] * 6, 4)
            else:
                raise Unsupported("%s reg-reg" % mn)
        elif d[0] == "x" and s[0] in ("r32", "r64"):
            q = rd(m, s)
            if mn in ("movq", "vmovq"):
                v = [q & M32, q >> 32] if is_c(q) else ["((_ extract 31 0) %s)" % q, "((_ extract 63 32) %s)" % q]
            else:
                v = [q & M32 if is_c(q) else ("((_ extract 31 0) %s)" % q if s[0] == "r64" else q), 0]
            (vwr if vex else swr)(m, d, v + [0] * 6, 4)
        elif d[0] in ("r32", "r64") and s[0] == "x":
            v = vrd(m, s, 2)
            if mn in ("movq", "vmovq"):
                wr(m, d, (v[0] | (v[1] << 32)) if is_c(*v) else "(concat %s %s)" % (T(v[1], 32), T(v[0], 32)))
            else:
                wr(m, ("r32", d[1]), v[0])
        else:
            raise Unsupported("%s form" % mn)
    elif mn == "movaps":
        swr(m, o[0], vrd(m, o[1], 4), 4)
    elif mn in ("vmovaps", "vmovups"):
        if o[0][0] == "m":
            n = vlanes(o[1])
            v = vrd(m, o[1], n)
            a = addr(m, o[0])
            for i in range(n):
                m.store32(a + 4 * i, v[i])
        else:
            n = vlanes(o[0])
            vwr(m, o[0], vrd(m, o[1], n) + [0] * (8 - n), n)
    elif mn in ("vbroadcastss", "vpbroadcastd"):
        n = vlanes(o[0])
        v = vrd(m, o[1], 1)[0]
        vwr(m, o[0], [v] * 8, n)
    elif mn in ("vpshufd", "pshufd"):
        imm = rd(m, o[2], 8)
        n = vlanes(o[0]) if mn == "vpshufd" else 4
        v = vrd(m, o[1], n)
        r = []
        for base in range(0, n, 4):
            r += [v[base + ((imm >> (2 * j)) & 3)] for j in range(4)]
        (vwr if mn == "vpshufd" else swr)(m, o[0], r + [0] * (8 - n), n)
    elif mn in ("vunpcklps", "vpunpckldq"):
        n = vlanes(o[0])
        a, c = vrd(m, o[1], n), vrd(m, o[2], n)
        r = []
        for base in range(0, n, 4):
            r += [a[base], c[base], a[base + 1], c[base + 1]]
        vwr(m, o[0], r + [0] * (8 - n), n)
    elif mn == "vpunpcklqdq":
        n = vlanes(o[0])
        a, c = vrd(m, o[1], n), vrd(m, o[2], n)
        r = []
        for base in range(0, n, 4):
            r += [a[base], a[base + 1], c[base], c[base + 1]]
        vwr(m, o[0], r + [0] * (8 - n), n)
    elif mn == "vpinsrd":
        imm = rd(m, o[3], 8) & 3
        v = vrd(m, o[1], 4)
        v[imm] = rd(m, o[2], 32)
        vwr(m, o[0], v + [0] * 4, 4)
    elif mn == "vzeroupper":
        for r in range(16):
            for i in range(4, 8):
                m.y[r][i] = 0
    elif mn == "call":
        call_hook(m, o[0])
    else:
        raise Unsupported("mnemonic %s" % mn)


# small helper used above
Machine.junk_bool = lambda self: self.symb("jb%d" % (self.fresh + 1))
