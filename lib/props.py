"""Property table and orchestration."""
import json
import os
import re
import time

import kani_engine as K
from common import (
    BUILD,
    ENV,
    REPLAYS,
    REPO,
    VERIF,
    Finding,
    load_known,
    log,
    repo_head,
    run,
    seed,
    write_evidence,
)


class UnitResult:
    def __init__(self, name):
        self.name = name
        self.obligations = 0  # solver-checked assertions / queries
        self.discharged = 0
        self.queries = 0  # solver invocations
        self.nontrivial = 0
        self.solver_s = 0.0
        self.findings = []  # Finding (reproduced violations)
        self.inconclusive = []  # strings
        self.functions = []
        self.bounds = {}
        self.samples = []
        self.assumptions = []
        self.stubs = []
        self.extra = {}


# --------------------------------------------------------------------------
# Kani units


class KaniUnit:
    """All harnesses of /verif/kani/<crate> whose name starts with `prefix`."""

    def __init__(self, crate, prefix, functions, bounds, assumptions=None, stubs=None,
                 quick_timeout=600, thorough_timeout=3600, jobs=14, contains=None):
        self.crate = crate
        self.prefix = prefix
        self.contains = contains  # optional substring every selected harness name must contain
        self.name = "kani:%s:%s%s" % (crate, prefix, contains or "")
        self.functions = functions
        self.bounds = bounds
        self.assumptions = assumptions or []
        self.stubs = stubs or []
        self.quick_timeout = quick_timeout
        self.thorough_timeout = thorough_timeout
        self.jobs = jobs

    def expected(self, tier):
        crate_dir = os.path.join(VERIF, "kani", self.crate)
        names = K.list_harnesses(crate_dir)
        out = []
        for n in names:
            if self.contains and self.contains not in n:
                continue
            if n.startswith(self.prefix + "q_") or (tier == "thorough" and n.startswith(self.prefix + "t_")):
                out.append(n)
        return out

    def run(self, prop, tier, only=None):
        r = UnitResult(self.name)
        r.functions = list(self.functions)
        r.bounds = dict(self.bounds)
        r.assumptions = list(self.assumptions)
        r.stubs = list(self.stubs)
        expected = self.expected(tier)
        if only:
            expected = [e for e in expected if only in e]
        filters = [self.prefix + "q_"] + ([self.prefix + "t_"] if tier == "thorough" else [])
        if only or self.contains:
            filters = expected
        if not expected:
            if not only:
                r.inconclusive.append("no harness matches %s" % self.prefix)
            return r
        timeout = self.quick_timeout if tier == "quick" else self.thorough_timeout
        log("[%s] %d harnesses, per-harness timeout %ds" % (self.name, len(expected), timeout))
        results, out, secs, build_failed = K.run_kani(self.crate, filters, harness_timeout=timeout, jobs=self.jobs,
                                                      overall_timeout=timeout * 4 + 3600)
        r.extra["kani_wall_s"] = round(secs, 1)
        if build_failed or not results:
            r.inconclusive.append("cargo kani produced no results (build failure?)")
            tail = "\n".join(l for l in out.splitlines() if l.startswith("error") or "error[" in l)[:2000]
            log(tail or out[-3000:])
            return r
        for h in expected:
            res = results.get(h)
            r.queries += 1
            if res is None:
                r.inconclusive.append("harness %s produced no result" % h)
                continue
            r.solver_s += res.time_s
            n_checks = len([c for c in res.checks if c.klass != "cover" and not c.ignored()])
            r.obligations += n_checks
            if res.status == "ok":
                r.discharged += n_checks
                r.nontrivial += 1
                if len(r.samples) < 6:
                    r.samples.append({
                        "harness": h,
                        "checks": n_checks,
                        "covers_satisfied": res.covers_sat,
                        "solver_s": res.time_s,
                        "status": "SUCCESSFUL",
                    })
            elif res.status == "failed":
                r.discharged += n_checks - len(res.failed)
                self.handle_failure(prop, h, res, r, timeout)
            elif res.status == "vacuous":
                r.inconclusive.append("harness %s: unsatisfied cover (vacuous): %s" % (
                    h, "; ".join(c.desc for c in res.unsat_covers)))
            elif res.status == "timeout":
                r.inconclusive.append("harness %s: solver timeout after %ds" % (h, timeout))
            else:
                r.inconclusive.append("harness %s: %s\n%s" % (h, res.status, res.raw_tail[-600:]))
        return r

    def handle_failure(self, prop, h, res, r, timeout):
        """A failing harness: obtain the counterexample, replay it natively
        against the real crates, and only then report."""
        first = res.failed[0]
        key = "kani:%s:%s:%s:%s" % (self.crate, h, first.func or first.cid, first.desc)
        what = "%s: %s at %s" % (h, first.desc, first.loc)
        vals, pout = K.playback_values(self.crate, res.name, harness_timeout=timeout, want_desc=first.desc)
        detail = {
            "harness": h,
            "failed_checks": [c.short() for c in res.failed[:8]],
            "concrete_vals": vals,
        }
        if vals is None:
            r.inconclusive.append("harness %s failed (%s) but Kani printed no concrete playback" % (h, first.desc))
            return
        rep = native_replay(self.crate, res.name, vals)
        detail["replay"] = rep
        path = os.path.join(REPLAYS, prop, "%s.json" % h)
        os.makedirs(os.path.dirname(path), exist_ok=True)
        with open(path, "w") as f:
            json.dump({"property": prop, "engine": "kani", "crate": self.crate, "harness": h,
                       "harness_path": res.name,
                       "concrete_vals": vals, "failed_checks": detail["failed_checks"],
                       "native_replay": rep,
                       "rerun": "./check %s --replay %s" % (prop, path)}, f, indent=1)
        if rep["dev"]["reproduced"] or rep["release"]["reproduced"]:
            r.findings.append(Finding(prop, key, what, detail, path))
        else:
            r.inconclusive.append(
                "harness %s failed under the solver (%s) but the counterexample did not reproduce natively; "
                "see %s" % (h, first.desc, path))


def hexvals(vals):
    return ";".join("".join("%02x" % b for b in v) for v in vals)


def native_replay(crate, harness, vals):
    """Runs the harness body as an ordinary test against the real crates with
    the solver's values (dev and release profiles)."""
    crate_dir = os.path.join(VERIF, "kani", crate)
    env = dict(ENV)
    env["CARGO_TARGET_DIR"] = os.path.join(BUILD, "native")
    env["VERIF_REPLAY_VALS"] = hexvals(vals)
    env["RUST_BACKTRACE"] = "0"
    out = {}
    for prof, flag in (("dev", []), ("release", ["--release"])):
        # exact, fully qualified test name: a substring filter could run other
        # harnesses with the same values
        rc, o, secs = run(["cargo", "test", "--lib"] + flag + [harness, "--", "--exact", "--test-threads", "1", "--nocapture"],
                          cwd=crate_dir, env=env, timeout=3600)
        if "running 1 test" not in o:
            out[prof] = {"reproduced": False, "assumption_violated": False, "panic": "", "error": "test %s not found" % harness}
            continue
        reproduced = rc != 0 and ("panicked" in o)
        assumption = "VERIF-REPLAY: assumption violated" in o
        msg = ""
        m = re.search(r"panicked at ([^\n]*)\n([^\n]*)", o)
        if m:
            msg = (m.group(1) + " " + m.group(2)).strip()
        out[prof] = {"reproduced": reproduced, "assumption_violated": assumption, "panic": msg[:300]}
    return out


class ArmsKaniUnit(KaniUnit):
    """Kani harnesses over the verbatim interpreter arms; the harness source
    is regenerated from /repo's vm/mod.rs before every run."""

    def __init__(self, prefix, functions, bounds, assumptions=None, stubs=None, **kw):
        KaniUnit.__init__(self, "vmarms", prefix, functions, bounds, assumptions, stubs, **kw)
        self.name = "kani:vmarms:%s" % prefix
        self._problems = None

    def expected(self, tier):
        import armgen

        names, problems = armgen.generate()
        self._problems = problems
        return [n for n in names if n.startswith(self.prefix + "q_") or (tier == "thorough" and n.startswith(self.prefix + "t_"))]

    def run(self, prop, tier, only=None):
        r = KaniUnit.run(self, prop, tier, only)
        for p in self._problems or []:
            r.inconclusive.append("arm extraction: " + p)
        return r


class JitKaniUnit(KaniUnit):
    """E-X: machine code of the real x86-64 assemblers, lifted to Rust and
    checked under Kani against the real kernels.  The lifted source is
    regenerated and re-validated against the actual JIT function on every run."""

    def __init__(self, prefix, kinds, functions, bounds, assumptions=None, stubs=None, **kw):
        KaniUnit.__init__(self, "jitx", prefix, functions, bounds, assumptions, stubs, **kw)
        self.name = "kani:jitx:%s" % prefix
        self.kinds = kinds
        self._problems = []
        self._extra = {}

    def expected(self, tier):
        import jitgen
        import tv_engine

        self._problems = []
        if not tv_engine.build_tvdump():
            self._problems.append("tvdump build failed")
            return []
        names, problems, extra = jitgen.generate(self.kinds, tier)
        self._problems += problems
        self._extra = extra
        return [n for n in names if n.startswith(self.prefix + "q_")]

    def run(self, prop, tier, only=None):
        self._tier = tier
        r = KaniUnit.run(self, prop, tier, only)
        for p in self._problems:
            r.inconclusive.append("E-X: " + p)
        r.extra.update(self._extra)
        return r


# --------------------------------------------------------------------------
# Property table

from proptable import PROPS  # noqa: E402


def run_property(prop, tier, replay=None, only=None):
    if prop not in PROPS:
        print("property %s is not claimed (see MANIFEST.json not_applicable)" % prop)
        return 2
    spec = PROPS[prop]
    if replay:
        return do_replay(prop, replay)
    t0 = time.time()
    units = spec["units"]
    results = []
    if not only:
        # replay files are run artefacts: start every full run from an empty directory
        import shutil

        shutil.rmtree(os.path.join(REPLAYS, prop), ignore_errors=True)
    for u in units:
        if only and hasattr(u, "accepts") and not u.accepts(only):
            continue
        results.append(u.run(prop, tier, only))
    wall = time.time() - t0

    known = load_known()
    known_keys = {(k["property"], k["key"]): k for k in known.get("findings", [])}
    violations = []
    known_hits = []
    inconclusive = []
    for r in results:
        inconclusive += ["%s: %s" % (r.name, s) for s in r.inconclusive]
        for f in r.findings:
            if (f.prop, f.key) in known_keys:
                known_hits.append(f)
            else:
                violations.append(f)

    obligations = sum(r.obligations for r in results)
    discharged = sum(r.discharged for r in results)
    queries = sum(r.queries for r in results)
    nontrivial = sum(r.nontrivial for r in results)
    samples = []
    for r in results:
        samples += r.samples[:6]
    if not samples:
        samples = [{"note": "no successful obligation in this run"}]
    coverage = {
        "evaluations": max(queries, 1),
        "distinct_nontrivial": nontrivial,
        "rule": spec.get("rule", "one evaluation = one solver query (Kani harness or SMT query) over symbolic inputs; "
                         "non-trivial = the query's reachability witnesses (kani::cover / sat-check of the premises) were satisfied"),
        "samples": samples,
        "obligations": obligations,
        "discharged": discharged,
        "queries": queries,
        "solver_s": round(sum(r.solver_s for r in results), 2),
        "functions_encoded": sorted(set(sum((r.functions for r in results), []))),
        "bounds": {r.name: r.bounds for r in results},
        "stubs": sorted(set(sum((r.stubs for r in results), []))),
        "units": {r.name: dict(obligations=r.obligations, discharged=r.discharged, queries=r.queries,
                               solver_s=round(r.solver_s, 2), inconclusive=len(r.inconclusive),
                               findings=len(r.findings), **r.extra) for r in results},
        "inconclusive": inconclusive[:20],
        "known_findings_hit": [f.key for f in known_hits],
        "repo_head": repo_head(),
        "exhaustive": False,
    }
    for r in results:
        for k, v in r.extra.items():
            if k in ("programs", "disagreements_checked"):
                coverage[k] = coverage.get(k, 0) + v
    if spec["level"] == "model_checking":
        # states: distinct symbolic start states handed to a solver (one per Kani harness, one per machine-code path of an
        # E-X scenario); transitions: solver-checked obligations over them; traces validated: solver answers or model runs
        # cross-checked against the real implementation natively (counterexample replays, x86-model validations)
        coverage["states"] = sum(r.extra.get("paths", 0) or r.queries for r in results)
        coverage["transitions"] = obligations
        coverage["traces_validated_against_impl"] = sum(
            r.extra.get("model_validations", 0) + r.extra.get("disagreements_checked", 0) + r.extra.get("encoder_validation_programs", 0)
            + len(r.findings) for r in results)
    assumptions = sorted(set(sum((r.assumptions for r in results), [])))
    if not only:  # `--only` is a debugging aid: never let a partial run overwrite the evidence
        write_evidence(prop, tier, spec["level"], coverage, assumptions, wall, len(violations))

    for f in known_hits:
        print("KNOWN-FINDING: property=%s %s" % (prop, known_keys[(f.prop, f.key)].get("what", f.what)))
    for f in violations:
        print("VIOLATION property=%s replay=%s" % (prop, f.replay))
        log("  " + f.what)
    for s in inconclusive:
        log("INCONCLUSIVE: " + s)
    log("[%s/%s] obligations=%d discharged=%d queries=%d violations=%d known=%d inconclusive=%d wall=%.0fs" % (
        prop, tier, obligations, discharged, queries, len(violations), len(known_hits), len(inconclusive), wall))
    if violations:
        return 1
    if inconclusive:
        return 2
    return 0


def do_replay(prop, path):
    with open(path) as f:
        rp = json.load(f)
    if rp.get("engine") == "kani":
        rep = native_replay(rp["crate"], rp.get("harness_path", rp["harness"]), rp["concrete_vals"])
        print(json.dumps(rep, indent=1))
        if rep["dev"]["reproduced"] or rep["release"]["reproduced"]:
            print("VIOLATION property=%s replay=%s" % (prop, path))
            return 1
        return 0
    import tv_engine

    return tv_engine.replay(prop, rp, path)
