#!/usr/bin/env python3
"""Writes /verif/MANIFEST.json from one table (kept next to the checks)."""
import json
import os

HERE = os.path.dirname(os.path.dirname(os.path.abspath(__file__)))

CLAIMED = {
    "C03": dict(
        category="model_checking",
        text="Bounded model checking (Kani/CBMC) of the real Interval kernels against the real point kernels: for every valid "
             "operand interval and every point inside, the interval result encloses the point result. All 2^32 bit patterns "
             "per endpoint for selection-shaped and (contract-stubbed, monotone) libm kernels; a stated value lattice for "
             "kernels whose enclosure depends on monotonicity of a rounded operation. Local per-opcode obligation; the composed "
             "claim follows by induction over the DAG because every valid operand interval is covered.",
        design="DESIGN.md §4 C03",
        note="Trusted: Kani 0.68/CBMC 6.11/CaDiCaL; libm contract stubs (functional, NaN-propagating, range, monotone where stated). "
             "Outside: quadrant branches of Interval::sin/cos, non-degenerate tan, atan2 corner selection, rem_euclid; values between lattice points; aarch64; WGSL.",
        technique="bounded model checking of the compiled kernels (Kani harnesses, symbolic f32 bit patterns, contract stubs for libm)",
        engine="E-K",
    ),
    "C05": dict(
        category="model_checking",
        text="Kani harnesses over the real Grad kernels with arbitrary symbolic operand duals (non-unit seeds): value lane equals the "
             "point kernel for every opcode; derivative lanes of selection-shaped kernels are exactly the selected operand's lanes; "
             "product/quotient/reciprocal/atan2 rules equal the true derivative computed exactly on a value lattice; chain-rule wiring "
             "of libm kernels relative to functional stubs.",
        design="DESIGN.md §4 C05",
        note="Trusted: Kani/CBMC; libm contract stubs. Outside: derivative lanes of sqrt/asin/acos/atan/tan (solver timeout), "
             "agreement with the real-number derivative off the lattice, Context::deriv, JIT grad assembler until E-X covers it.",
        technique="bounded model checking of the compiled Grad kernels (Kani, symbolic duals)",
        engine="E-K",
    ),
    "C11": dict(
        category="model_checking",
        text="Kani harnesses prove that every Interval kernel returns a well-formed interval without panicking for every valid operand "
             "(including infinite and NaN endpoints, which overflow makes reachable from finite inputs). Counterexamples are replayed "
             "natively (dev + release) before being reported.",
        design="DESIGN.md §4 C11",
        note="Trusted: Kani/CBMC; libm contract stubs. Outside: quadrant branches of sin/cos and the constant-divisor branch of rem_euclid "
             "(need facts about real analysis / exact fmod); lattice bound for add/sub/square/recip/mul_imm.",
        technique="bounded model checking of the compiled kernels (Kani), native replay of counterexamples",
        engine="E-K",
    ),
    "C20": dict(
        category="model_checking",
        text="Kani harnesses over all 2^32 bit patterns per operand: the f32 and Interval choice kernels return exactly the choice the "
             "operand values imply, never Unknown, and a one-sided choice means the point and gradient kernels return that operand "
             "bit-for-bit at every point of the box (the fact that makes trace-driven simplification sound).",
        design="DESIGN.md §4 C20",
        note="Trusted: Kani/CBMC. Outside until E-X/VM units are added: trace bookkeeping of the interpreter loop and JIT code.",
        technique="bounded model checking of the compiled choice kernels (Kani)",
        engine="E-K",
    ),
}

NOT_APPLICABLE = {
    "C06": "2D renderer: Kani 0.68 ICEs (intrinsics.rs:243) on the monomorphised pixel::render path and nalgebra transforms cost ~1 min per matrix op under CBMC; a native run has no symbolic dimension to validate.",
    "C07": "3D renderer: same driver code as C06 (Kani ICE, nalgebra cost); no encoder for the generic rayon/nalgebra drivers exists in this image.",
    "C08": "Meshing: octree + QEF (iterative SVD float code) + recursive dual walk on a data-dependent tree; 'enclosed volume matches' is not a solver statement within reach.",
    "C09": "Schedules: Kani/CBMC have no thread support; rayon interleavings cannot be made symbolic variables of the real code.",
    "C17": "Scripts: the unit is the Rhai interpreter (string parser + dynamic dispatch), far beyond bounded symbolic execution here.",
    "C19": "Constraint solver: HashMap<Var,_> API, dynamic nalgebra matrices and an SVD-based LM loop; hash-map and nalgebra code alone cost minutes per call under CBMC and the claims are numeric.",
    # not yet built (kept current as checks are added)
    "C01": "not yet built in this revision (planned: E-TV translation validation of SsaTape/RegTape, DESIGN.md §4)",
    "C02": "not yet built in this revision (planned: E-X x86-64 lifter, DESIGN.md §4)",
    "C04": "not yet built in this revision (planned: E-TV over simplify, DESIGN.md §4)",
    "C10": "not yet built in this revision (planned, DESIGN.md §4)",
    "C12": "not yet built in this revision (planned: E-TV with FP theory, DESIGN.md §4)",
    "C13": "not yet built in this revision (planned, DESIGN.md §4)",
    "C14": "not yet built in this revision (planned, DESIGN.md §4)",
    "C15": "not yet built in this revision (planned: E-TV over Bytecode::new, DESIGN.md §4)",
    "C16": "not yet built in this revision (planned, DESIGN.md §4)",
    "C18": "not yet built in this revision (planned, DESIGN.md §4)",
}

HOOK_COMMITS = []


def main():
    checks = []
    for pid in sorted(CLAIMED):
        c = CLAIMED[pid]
        checks.append({
            "property_id": pid,
            "quick_cmd": "./check %s --tier quick" % pid,
            "thorough_cmd": "./check %s --tier thorough" % pid,
            "evidence_file": "/verif/evidence/%s.json" % pid,
            "replay_cmd_template": "./check %s --replay {path}" % pid,
            "engine": c["engine"],
            "level_claimed": {"category": c["category"], "text": c["text"], "design_ref": c["design"]},
            "level_note": c["note"],
            "technique": c["technique"],
        })
    na = [{"property_id": k, "reason": v} for k, v in sorted(NOT_APPLICABLE.items()) if k not in CLAIMED]
    m = {
        "version": 1,
        "setup_cmd": "./setup.sh",
        "hooks": {
            "guard": "--cfg fidget_verif",
            "enable": "RUSTFLAGS='--cfg fidget_verif' (set by /verif/check for every build of /repo crates)",
            "baseline_off_cmd": "cd /repo && cargo nextest run --workspace --no-fail-fast --test-threads 8 --offline || cargo test --workspace --no-fail-fast --offline",
            "source_commits": HOOK_COMMITS,
            "add_only": True,
        },
        "engines": [
            {"name": "E-K", "path": "/verif/kani", "serves_properties": ["C03", "C05", "C11", "C20"],
             "kind_free_text": "Kani 0.68 / CBMC 6.11 proof harnesses over the real fidget crates (path dependency on /repo), driven by /verif/check"},
        ],
        "checks": checks,
        "not_applicable": na,
        "notes": "All checks are solver-based (Kani/CBMC bounded model checking, SMT translation validation). Exit 2 = inconclusive (never success).",
    }
    with open(os.path.join(HERE, "MANIFEST.json"), "w") as f:
        json.dump(m, f, indent=1)
        f.write("\n")


if __name__ == "__main__":
    main()
