#!/usr/bin/env python3
"""Writes /verif/MANIFEST.json from one table (kept next to the checks)."""
import json
import os

HERE = os.path.dirname(os.path.dirname(os.path.abspath(__file__)))

CLAIMED = {
    "C14": dict(
        category="model_checking",
        text="Kani harnesses over the real Transformable impls for f32, Interval and Grad (the code that applies the transform matrix in every "
             "Shape evaluator): matrix entries, positions, boxes and derivative seeds are symbolic on a lattice where real arithmetic is exact in f32 "
             "(k/4, homogeneous coordinate a power of two), so the assertions are exact and independent of operation order: the point result is "
             "(M p)/w, the box result contains the image of every point of the box, the gradient lanes are the quotient-rule derivative for "
             "arbitrary seeds. Quick: one symbolic upper row + symbolic w (A_0..A_2) and a symbolic projective bottom row (B: whole row for points, one linear entry "
             "+ m33 per harness for gradients); thorough adds the whole bottom row for gradients, a larger lattice for boxes and the point harness with all 16 entries.",
        design="DESIGN.md §2 C14",
        note="Trusted: Kani/CBMC. Outside: binding of variables by identity (ShapeVars/VarMap hash maps and Vec scratch buffers are not tractable "
             "under CBMC here), values off the lattice, all 16 entries symbolic at once for Interval/Grad (>10 min, harnesses kept as c14_x_*), "
             "survival through simplification (the variable map is checked by the C04 unit).",
        technique="bounded model checking of the compiled Transformable kernels (Kani) on an exact-arithmetic lattice",
        engine="E-K",
    ),
    "C16": dict(
        category="translation_validation",
        text="Every shape, transform and CSG combinator of fidget-shapes is built through its public struct and Tree::from with fixed dyadic "
             "parameter sets (rotations: 0/+-90/180/45/30/60/120 degrees about the named and four oblique axes), alone, in all ordered pairs over "
             "opaque argument trees, and primitives under transforms; the tree is imported by the real Context::import, read back, and z3 decides "
             "over the reals, for ALL points, that it has the documented geometry: primitives negative exactly inside their solid, T(s)(p) = s(T^-1 p) "
             "for every transform, CSG inside exactly per union/intersection/difference/complement, named axes and planes as named.",
        design="DESIGN.md §2 C16",
        note="Trusted: z3 (NRA); the closed-form specification written from the documentation (lib/shapes_tv.py Spec); real arithmetic as the meaning "
             "of the arithmetic opcodes (sqrt, mod by axioms). Outside: other parameter values, f32 rounding (rotations and normalised axes are compared "
             "on a linear target with a stated tolerance), deeper compositions, Blend beyond containment, ReflectXY offsets, facet metadata, rhai bindings.",
        technique="SMT translation validation (z3, QF_UFNRA) of natively built shape trees against closed-form geometry",
        engine="E-TV",
    ),
    "C10": dict(
        category="translation_validation",
        text="Reuse of the simplification workspace and of recycled function storage: tvdump runs the real simplify_with with a "
             "VmWorkspace and VmData storage that were first used for a larger, register-spilling function and are then reused across "
             "every trace of every enumerated parent (incl. wide parents that spill at a budget of 3); z3 validates each child against "
             "its parent for all inputs compatible with the trace, plus slot/register bounds of the reused tapes.",
        design="DESIGN.md §2 C10",
        note="Trusted: z3; same encoding as C04. Also: the verbatim body of TracingVmEval::resize_slots under Kani from an arbitrary earlier "
             "evaluator state (every trace entry Unknown, buffers sized to the tape). Outside: bulk evaluator buffers, JIT evaluator objects and "
             "drivers, Shape wrappers, MmapWriter growth, RenderHandle::recycle.",
        technique="SMT translation validation of simplify run natively with reused workspace/storage histories; bounded model checking (Kani) of the evaluator reset",
        engine="E-TV",
    ),
    "C12": dict(
        category="translation_validation",
        text="Every Context constructor is applied natively to operands drawn from variables and the special constants "
             "(0, -0, 1, -1, 2, 0.5, 3, +-inf, NaN, denormal) on either side, the same node twice, unary-of-unary and two-level nestings; "
             "the graph the Context holds is read back and z3 (IEEE FP theory) decides that it equals the expression as written for all "
             "variable values whenever that evaluation is finite (up to the sign of zero); building twice must give the same node.",
        design="DESIGN.md §2 C12",
        note="Trusted: z3 FP theory as the meaning of f32 arithmetic; documented opcode semantics shared with E-X; libm/atan2/mod uninterpreted. "
             "Outside: Tree Eq/Hash consistency, import/export identity, recursion depth, libm constant folding, deeper nestings.",
        technique="SMT translation validation (z3 QF_BVFP+UF) of natively built expression graphs",
        engine="E-TV",
    ),
    "C13": dict(
        category="translation_validation",
        text="Builder scripts (six targets x eleven remaps: translate, scale, two rotations, shear, a dense matrix, axis permutation, linear and "
             "non-linear axis expressions, shared and remapped argument trees) nested to depth 3 (thorough: 4), one shared subtree under two frames, "
             "and remapped trees as remap_xyz arguments are run through the real Tree builder API and Context::import; z3 decides that the imported "
             "graph equals the script read as substitution (later remaps applied to the coordinates first) for all points, over the reals.",
        design="DESIGN.md §2 C13",
        note="Trusted: z3; real arithmetic as the meaning of + - * / neg abs square min max, other opcodes uninterpreted. Outside: f32 rounding "
             "(matrices/constants are dyadic so the native folds are exact), nestings deeper than the bound, hand-made TreeOp::RemapAffine chains.",
        technique="SMT translation validation (z3, QF_UFNRA) of natively imported remap trees",
        engine="E-TV",
    ),
    "C18": dict(
        category="model_checking",
        text="Kani harnesses over the real View2/View3 code from an arbitrary state (all 2^32 bit patterns per field): rotating leaves centre "
             "and scale untouched, keeps pitch in [0, pi] and |yaw| < tau and reports `changed` exactly when yaw/pitch changed; zooming "
             "without a cursor multiplies the scale, leaves everything else untouched and must not report `changed` for a bit-identical view.",
        design="DESIGN.md §2 C18",
        note="Trusted: Kani/CBMC (incl. its fmod model for `%`). Outside: zoom/drag about a cursor position and world_to_model == T*R*S "
             "(nalgebra matrix code exceeds 15 min per harness under CBMC; harnesses kept as c18_x_* but not run), Canvas event plumbing.",
        technique="bounded model checking of the compiled view code (Kani)",
        engine="E-K",
    ),
    "C02": dict(
        category="model_checking",
        text="The machine code emitted by the real x86-64 point and float-slice assemblers (build_asm_fn_with_storage on tapes built from "
             "explicit RegOp lists: every opcode variant x register/immediate form, spill slots, consecutive choice clauses, 12 live "
             "registers across libm calls, every frame-size residue) is disassembled and executed symbolically into SMT with ALL register, "
             "flag, stack and buffer contents symbolic; z3 decides per scenario that every output lane equals the opcode semantics "
             "(bit-identical, NaN=NaN, sign of zero free only after min/max), that callee-saved registers, rsp and the caller's frame are "
             "preserved, the stack is 16-byte aligned at calls and no access leaves the buffers/frame, for slice sizes 0, 8 and 16.",
        design="DESIGN.md §4 C02",
        note="Trusted: objdump's decoder; the x86 instruction semantics in lib/x86smt.py (validated every run against the real JIT function "
             "on this CPU by asserting concrete inputs); the opcode specification in lib/jitsmt.py (IEEE ops of the SMT FP theory, "
             "uninterpreted libm shared by both sides); z3. Outside: aarch64; tapes beyond the scenarios; the Rust bulk driver "
             "(JitBulkEval::eval remainder handling); libm values.",
        technique="symbolic execution of the emitted x86-64 machine code into SMT-LIB (QF_BVFP+UF), decided by z3",
        engine="E-X",
    ),
    "C01": dict(
        category="translation_validation",
        text="Translation validation of the real compiler passes: tvdump runs the real SsaTape::new, VmData::<N>::new and "
             "RegTape::new::<N> natively on an exhaustively enumerated bounded program space (all SSA programs up to K ops over "
             "the allocator-relevant shapes incl. every program that spills at N=3; all Context DAGs up to K interior nodes; every "
             "opcode variant) and z3 decides, per (input, output) pair, that every output is equal for ALL input values. "
             "Counterexamples are replayed through Context::eval vs the real VM evaluators.",
        design="DESIGN.md §4 C01",
        note="Trusted: z3 4.8.12; the symbolic executor of straight-line tapes (validated every run by native execution of sampled "
             "programs and by a mutation self-test); opcodes are uninterpreted functions (min/max/and/or exact in FP theory for flattening). "
             "Outside: programs larger than the enumeration bound; N in 6..254 except 8; per-opcode f32 semantics of the interpreter arms (see DESIGN.md).",
        technique="SMT translation validation (z3, QF_UFBV/FP) of natively executed compiler passes over exhaustively enumerated programs",
        engine="E-TV",
    ),
    "C04": dict(
        category="translation_validation",
        text="For every enumerated parent tape (1..4 choice clauses of all four kinds, reg/reg and reg/imm, shared clauses, two outputs), "
             "every trace in {L,R,B}^k and depth-2 chains, the child produced by the real simplify_with::<M> is validated by z3: for all "
             "input values compatible with the trace(s), every child output (SSA and register tape) is bit-identical to the parent's; "
             "variable map, output count and choice count are preserved; a failure to simplify a producible trace is a violation.",
        design="DESIGN.md §4 C04",
        note="Trusted: z3 (UF+BV+FP); min/max/and/or encoded exactly in IEEE FP theory, other opcodes uninterpreted. A trace entry L/R is "
             "modelled as 'clause result bit-identical to that operand' which the C20 Kani harnesses prove for every point of a traced box. "
             "Outside: more than 4 clauses / K>4 nodes; RenderHandle cache; JIT-produced traces (until E-X).",
        technique="SMT translation validation (z3 FP theory) of the natively executed simplify pass over enumerated tapes x all traces",
        engine="E-TV",
    ),
    "C15": dict(
        category="translation_validation",
        text="Every register tape of the ALLOC-TV program space (N=3 forces Load/Store; every opcode variant and operand form) is "
             "serialized by the real Bytecode::new; a decoder written from the module documentation only turns the words back into a "
             "program and z3 decides that it computes the same outputs as the tape for all inputs; marker words, 0xFF immediate flags, "
             "Mem direction flags, reg_count/mem_count bounds and the reserved register are checked on every tape.",
        design="DESIGN.md §4 C15",
        note="Trusted: z3; the documentation-based decoder; opcodes uninterpreted (Add/Mul commutative). Outside: WGSL interpreter; tapes beyond the enumeration bound.",
        technique="SMT translation validation (z3) of Bytecode::new output decoded per the documented format",
        engine="E-TV",
    ),
    "C03": dict(
        category="model_checking",
        text="Bounded model checking (Kani/CBMC) of the real Interval kernels against the real point kernels: for every valid "
             "operand interval and every point inside, the interval result encloses the point result. All 2^32 bit patterns "
             "per endpoint for selection-shaped and (contract-stubbed, monotone) libm kernels; a stated value lattice for "
             "kernels whose enclosure depends on monotonicity of a rounded operation. Local per-opcode obligation; the composed "
             "claim follows by induction over the DAG because every valid operand interval is covered.",
        design="DESIGN.md §4 C03",
        note="Trusted: Kani 0.68/CBMC 6.11/CaDiCaL; libm contract stubs (functional, NaN-propagating, range, monotone where stated). "
             "Also: Transformable for Interval (the box with a transform matrix applied contains the image of every point, exact-arithmetic lattice). Outside: quadrant branches of Interval::sin/cos, non-degenerate tan, atan2 corner selection, rem_euclid; values between lattice points; projective rows for boxes; aarch64; WGSL.",
        technique="bounded model checking of the compiled kernels and interpreter arms (Kani), symbolic execution of the x86-64 interval JIT code into SMT (z3)",
        engine="E-K",
    ),
    "C05": dict(
        category="model_checking",
        text="Kani harnesses over the real Grad kernels with arbitrary symbolic operand duals (non-unit seeds): value lane equals the "
             "point kernel for every opcode; derivative lanes of selection-shaped kernels are exactly the selected operand's lanes; "
             "product/quotient/reciprocal/atan2 rules equal the true derivative computed exactly on a value lattice; chain-rule wiring "
             "of libm kernels relative to functional stubs.",
        design="DESIGN.md §4 C05",
        note="Trusted: Kani/CBMC; libm contract stubs. Outside: derivative lanes of sqrt/asin/acos/atan/tan (solver timeout), "
             "agreement with the real-number derivative off the lattice, Context::deriv, JIT grad assembler until E-X covers it.",
        technique="bounded model checking of the compiled Grad kernels (Kani, symbolic duals)",
        engine="E-K",
    ),
    "C11": dict(
        category="model_checking",
        text="Kani harnesses prove that every Interval kernel returns a well-formed interval without panicking for every valid operand "
             "(including infinite and NaN endpoints, which overflow makes reachable from finite inputs). Counterexamples are replayed "
             "natively (dev + release) before being reported.",
        design="DESIGN.md §4 C11",
        note="Trusted: Kani/CBMC; libm contract stubs. Outside: quadrant branches of sin/cos and the constant-divisor branch of rem_euclid "
             "(need facts about real analysis / exact fmod); lattice bound for add/sub/square/recip/mul_imm.",
        technique="bounded model checking of the compiled kernels (Kani), native replay of counterexamples",
        engine="E-K",
    ),
    "C20": dict(
        category="model_checking",
        text="Kani harnesses over all 2^32 bit patterns per operand: the f32 and Interval choice kernels return exactly the choice the "
             "operand values imply, never Unknown, and a one-sided choice means the point and gradient kernels return that operand "
             "bit-for-bit at every point of the box (the fact that makes trace-driven simplification sound).",
        design="DESIGN.md §4 C20",
        note="Trusted: Kani/CBMC. Outside until E-X/VM units are added: trace bookkeeping of the interpreter loop and JIT code.",
        technique="bounded model checking of the compiled choice kernels and interpreter arms (Kani), symbolic execution of the x86-64 JIT trace code into SMT (z3)",
        engine="E-K",
    ),
}

NOT_APPLICABLE = {
    "C06": "2D renderer: Kani 0.68 ICEs (intrinsics.rs:243) on the monomorphised pixel::render path and nalgebra transforms cost ~1 min per matrix op under CBMC; a native run has no symbolic dimension to validate.",
    "C07": "3D renderer: same driver code as C06 (Kani ICE, nalgebra cost); no encoder for the generic rayon/nalgebra drivers exists in this image.",
    "C08": "Meshing: octree + QEF (iterative SVD float code) + recursive dual walk on a data-dependent tree; 'enclosed volume matches' is not a solver statement within reach.",
    "C09": "Schedules: Kani/CBMC have no thread support; rayon interleavings cannot be made symbolic variables of the real code.",
    "C17": "Scripts: the unit is the Rhai interpreter (string parser + dynamic dispatch), far beyond bounded symbolic execution here.",
    "C19": "Constraint solver: HashMap<Var,_> API, dynamic nalgebra matrices and an SVD-based LM loop; hash-map and nalgebra code alone cost minutes per call under CBMC and the claims are numeric.",
    # not yet built (kept current as checks are added)
}

HOOK_COMMITS = ["6f64d81", "a9b3eaa"]


def main():
    checks = []
    for pid in sorted(CLAIMED):
        c = CLAIMED[pid]
        checks.append({
            "property_id": pid,
            "quick_cmd": "./check %s --tier quick" % pid,
            "thorough_cmd": "./check %s --tier thorough" % pid,
            "evidence_file": "/verif/evidence/%s.json" % pid,
            "replay_cmd_template": "./check %s --replay {path}" % pid,
            "engine": c["engine"],
            "level_claimed": {"category": c["category"], "text": c["text"], "design_ref": c["design"]},
            "level_note": c["note"],
            "technique": c["technique"],
        })
    na = [{"property_id": k, "reason": v} for k, v in sorted(NOT_APPLICABLE.items()) if k not in CLAIMED]
    m = {
        "version": 1,
        "setup_cmd": "./setup.sh",
        "hooks": {
            "guard": "--cfg fidget_verif",
            "enable": "RUSTFLAGS='--cfg fidget_verif' (set by /verif/check for every build of /repo crates)",
            "baseline_off_cmd": "cd /repo && cargo nextest run --workspace --no-fail-fast --test-threads 8 --offline || cargo test --workspace --no-fail-fast --offline",
            "source_commits": HOOK_COMMITS,
            "add_only": True,
        },
        "engines": [
            {"name": "E-X", "path": "/verif/lib/x86smt.py", "serves_properties": ["C02", "C03", "C20"],
             "kind_free_text": "tvdump assembles tapes with the real fidget-jit assemblers; lib/lifter.py + lib/x86smt.py + lib/jitsmt.py execute the machine code symbolically into SMT for z3"},
            {"name": "E-TV", "path": "/verif/tv", "serves_properties": ["C01", "C04", "C10", "C12", "C13", "C15", "C16"],
             "kind_free_text": "tvdump (Rust, path dependency on /repo) runs the real compiler passes natively on enumerated programs; lib/tv_engine.py encodes each input/output pair for z3"},
            {"name": "E-K", "path": "/verif/kani", "serves_properties": ["C01", "C03", "C04", "C05", "C10", "C11", "C14", "C18", "C20"],
             "kind_free_text": "Kani 0.68 / CBMC 6.11 proof harnesses over the real fidget crates (path dependency on /repo), driven by /verif/check"},
        ],
        "checks": checks,
        "not_applicable": na,
        "notes": "All checks are solver-based (Kani/CBMC bounded model checking, SMT translation validation). Exit 2 = inconclusive (never success).",
    }
    with open(os.path.join(HERE, "MANIFEST.json"), "w") as f:
        json.dump(m, f, indent=1)
        f.write("\n")


if __name__ == "__main__":
    main()
