"""E-K: run Kani harness crates and classify the results.

A harness crate lives in /verif/kani/<name>/ and depends on /repo by path, so
every run re-compiles the harnesses against /repo's current working tree.
"""
import glob
import os
import re
import shutil
import time

from common import BUILD, ENV, VERIF, log, run, sync_lockfile

# CBMC check classes that are not Rust panics / UB (IEEE arithmetic producing
# NaN or +-inf is defined behaviour in Rust): ignored, and listed in evidence.
IGNORED_CLASSES = {"NaN"}
IGNORED_DESC = [
    re.compile(r"^NaN on "),
    re.compile(r"^arithmetic overflow on floating-point"),
    re.compile(r"^division by zero$"),  # CBMC's float check; Rust's integer check reads "attempt to divide by zero"
]


class Check:
    __slots__ = ("cid", "status", "desc", "loc", "func", "klass")

    def __init__(self, cid):
        self.cid = cid
        self.status = None
        self.desc = ""
        self.loc = ""
        self.func = ""
        m = re.match(r".*\.([A-Za-z_\-]+)\.\d+$", cid)
        self.klass = m.group(1) if m else "?"

    def ignored(self):
        if self.klass in IGNORED_CLASSES:
            return True
        return any(r.search(self.desc) for r in IGNORED_DESC)

    def in_repo(self):
        return "/repo/" in self.loc or self.loc.startswith("../../../repo")

    def short(self):
        return "%s | %s | %s" % (self.func or self.cid, self.desc, self.loc)


class HarnessResult:
    def __init__(self, name):
        self.name = name
        self.status = "missing"  # ok | failed | timeout | error | vacuous | missing
        self.checks = []
        self.failed = []  # non-ignored failing checks
        self.ignored_failed = 0
        self.covers_total = 0
        self.covers_sat = 0
        self.unsat_covers = []
        self.time_s = 0.0
        self.raw_tail = ""

    @property
    def short_name(self):
        return self.name.split("::")[-1]


def parse_result_file(path, name):
    r = HarnessResult(name)
    with open(path, errors="replace") as f:
        text = f.read()
    r.raw_tail = text[-1500:]
    cur = None
    for line in text.splitlines():
        m = re.match(r"^Check \d+: (.*)$", line)
        if m:
            cur = Check(m.group(1).strip())
            r.checks.append(cur)
            continue
        if cur is not None:
            m = re.match(r"^\s+- Status: (\S+)", line)
            if m:
                cur.status = m.group(1)
                continue
            m = re.match(r'^\s+- Description: "(.*)"$', line)
            if m:
                cur.desc = m.group(1).strip('"')
                continue
            m = re.match(r"^\s+- Location: (.*?)(?: in function (.*))?$", line)
            if m:
                cur.loc = m.group(1)
                cur.func = m.group(2) or ""
                continue
        m = re.match(r"^Verification Time: ([0-9.]+)s", line)
        if m:
            r.time_s = float(m.group(1))
    if "CBMC timed out" in text:
        r.status = "timeout"
        return r
    if "VERIFICATION:-" not in text:
        r.status = "error"
        return r
    if not r.checks:
        r.status = "error"
        return r
    for c in r.checks:
        if c.klass == "cover":
            r.covers_total += 1
            if c.status == "SATISFIED":
                r.covers_sat += 1
            else:
                r.unsat_covers.append(c)
        elif c.status == "FAILURE" or c.status == "UNDETERMINED":
            if c.ignored():
                r.ignored_failed += 1
            else:
                r.failed.append(c)
    if r.failed:
        r.status = "failed"
    elif r.unsat_covers:
        r.status = "vacuous"
    else:
        r.status = "ok"
    return r


def list_harnesses(crate_dir):
    """Harness names declared in the crate's sources (macro invocations whose
    first argument looks like cNN_[qt]_...)."""
    names = []
    for p in sorted(glob.glob(os.path.join(crate_dir, "src", "**", "*.rs"), recursive=True)):
        with open(p) as f:
            s = f.read()
        names += re.findall(r"\b(c\d\d_[qt]_[A-Za-z0-9_]+)\b", s)
    out = []
    for n in names:
        if n not in out:
            out.append(n)
    return out


def run_kani(crate, filters, harness_timeout=300, jobs=14, overall_timeout=7200, extra_args=None):
    """Runs `cargo kani` on /verif/kani/<crate> for all harnesses matching any
    of the substrings in `filters`; returns {harness: HarnessResult}, log."""
    crate_dir = os.path.join(VERIF, "kani", crate)
    sync_lockfile(crate_dir)
    outdir = os.path.join(crate_dir, "result_output_dir")
    shutil.rmtree(outdir, ignore_errors=True)
    env = dict(ENV)
    env["CARGO_TARGET_DIR"] = os.path.join(BUILD, "kani-" + crate)
    cmd = [
        "cargo",
        "kani",
        "-Z",
        "stubbing",
        "-Z",
        "unstable-options",
        "--harness-timeout",
        "%ds" % harness_timeout,
        "--output-format",
        "terse",
        "--output-into-files",
        "-j",
        str(jobs),
        # CBMC's float NaN/overflow, conversion and shift checks are not Rust
        # panics (they were filtered out anyway); Rust's own overflow and
        # bounds panics are compiled-in assertions and stay
        "--no-overflow-checks",
    ]
    for f in filters:
        cmd += ["--harness", f]
    if extra_args:
        cmd += extra_args
    t0 = time.time()
    rc, out, secs = run(cmd, cwd=crate_dir, env=env, timeout=overall_timeout)
    results = {}
    for p in sorted(glob.glob(os.path.join(outdir, "*"))):
        name = os.path.basename(p)
        results[name.split("::")[-1]] = parse_result_file(p, name)
    build_failed = (not results) and ("error" in out)
    return results, out, secs, build_failed


def playback_values(crate, harness, harness_timeout=300, want_desc=None):
    """Asks Kani for the concrete counterexample of a failing harness; returns
    the list of byte vectors in `kani::any()` call order (or None)."""
    crate_dir = os.path.join(VERIF, "kani", crate)
    env = dict(ENV)
    env["CARGO_TARGET_DIR"] = os.path.join(BUILD, "kani-" + crate)
    cmd = [
        "cargo",
        "kani",
        "-Z",
        "stubbing",
        "-Z",
        "unstable-options",
        "-Z",
        "concrete-playback",
        "--concrete-playback=print",
        "--harness-timeout",
        "%ds" % harness_timeout,
        "--harness",
        harness,
        "--exact",
    ]
    rc, out, secs = run(cmd, cwd=crate_dir, env=env, timeout=harness_timeout + 600)
    tests = []
    for tm in re.finditer(r"/// Check for `([^`]*)`: \"(.*?)\"\s*\n(.*?)kani::concrete_playback_run", out, re.S):
        klass, desc, body = tm.group(1), tm.group(2).strip('"'), tm.group(3)
        m = re.search(r"let concrete_vals: Vec<Vec<u8>> = vec!\[(.*)", body, re.S)
        if not m:
            continue
        vals = []
        for vm in re.finditer(r"vec!\[([0-9,\s]*)\]", m.group(1)):
            b = vm.group(1).strip()
            vals.append([int(x) for x in b.split(",") if x.strip()] if b else [])
        tests.append((klass, desc, vals))
    if not tests:
        return None, out
    # the playback of the failing check we report, not of a cover or an
    # ignored float check
    if want_desc is not None:
        for klass, desc, vals in tests:
            if klass != "cover" and desc == want_desc:
                return vals, out
    for klass, desc, vals in tests:
        if klass not in ("cover", "NaN") and not any(r.search(desc) for r in IGNORED_DESC):
            return vals, out
    return None, out
