"""E-X units: machine code of the real x86-64 assemblers, symbolically
executed into SMT and decided by z3."""
import json
import multiprocessing as mp
import os
import subprocess
import time

import jitgen
import jitsmt
import tv_engine as T
from common import Finding, log, seed
from props import UnitResult
from tv_units import NPROC, MAX_REPLAYS, save_replay

WORKERS = {"point": jitsmt.work_point, "fslice": jitsmt.work_fslice, "interval": jitsmt.work_interval}


def norm(words):
    out = []
    for v in words:
        if (v & 0x7F800000) == 0x7F800000 and (v & 0x7FFFFF):
            v = 0x7FC00000
        out.append(v)
    return out


class JitSmtUnit:
    def __init__(self, kinds, name_filter=None):
        self.kinds = kinds
        self.name_filter = name_filter
        self.name = "ex:" + "+".join(kinds) + (":choices" if name_filter else "")

    def run(self, prop, tier, only=None):
        r = UnitResult(self.name)
        r.functions = ["fidget_jit::build_asm_fn_with_storage::<A> and every Assembler::build_* emitter, prologue/epilogue and "
                       "call sequences of A in {%s} (x86_64), via the machine code they emit" % ", ".join(self.kinds)]
        r.assumptions = [
            "objdump's x86-64 decoder and the instruction semantics in lib/x86smt.py are trusted; on every run the semantics are "
            "validated by asserting concrete inputs and checking that the model implies exactly what the real JIT function returned on this CPU",
            "opcode specification: IEEE-754 binary32 operations of the SMT FP theory for + - * / sqrt floor ceil round, bit operations "
            "for neg/abs, the documented min/max/and/or/compare/not/rand/mix semantics; libm functions are uninterpreted functions "
            "shared by both sides (callbacks are identified by evaluating them natively)",
            "SysV clobber model at calls: every caller-saved GPR, every vector register and the flags become arbitrary; stack must be 16-byte aligned",
            "z3 4.8.12 (incremental, with a fresh non-incremental run as fall-back); x86_64 only",
        ]
        r.bounds = {"scenarios": "one tape per opcode variant x operand form (register forms incl. out==lhs, out==rhs, lhs==rhs, high registers; "
                    "immediates incl. NaN, -0, inf), Load/Store through spill slots, two and three consecutive choice clauses, 12 live registers "
                    "across a libm call, spill + call; ALL register, flag, stack and buffer contents symbolic (full 32-bit patterns)",
                    "outside": "tapes longer than the scenarios; libm values; aarch64"}
        if not T.build_tvdump():
            r.inconclusive.append("tvdump build failed")
            return r
        t0 = time.time()
        cand = []
        for kind in self.kinds:
            scs = jitgen.scenarios(kind, tier)
            if self.name_filter:
                scs = [s for s in scs if any(k in s.name for k in self.name_filter)]
            if only:
                scs = [s for s in scs if only in s.name] or scs
            for p in jitgen.assemble(scs):
                r.inconclusive.append(p)
            scs = [s for s in scs if s.code]
            items = []
            if kind == "fslice":
                runs = jitsmt.real_runs_fslice(scs, 2 if tier == "quick" else 6)
                for s in scs:
                    items.append((s, [(v, o) for v, o, _, _, _ in runs.get(s.sid, [])]))
            elif kind == "interval":
                runs = jitsmt.real_runs_interval(scs, 3 if tier == "quick" else 8)
                for s in scs:
                    items.append((s, [(v, o, t) for v, o, t, _, _ in runs.get(s.sid, [])]))
            else:
                runs = jitsmt.real_runs(scs, kind, 4 if tier == "quick" else 12)
                for s in scs:
                    items.append((s, [(v[:s.nvars], o, t) for v, o, t, _, _ in runs.get(s.sid, [])]))
            # heavy scenarios first, one per task, so the pool stays balanced
            items.sort(key=lambda it: -len(it[0].ops) - (40 if any(k in it[0].name for k in ("Mix", "Rand", "Round", "live12")) else 0))
            chunks = [[it] for it in items]
            by_sid = {s.sid: s for s in scs}
            with mp.Pool(NPROC) as pool:
                for out, secs in pool.imap_unordered(WORKERS[kind], chunks):
                    r.solver_s += secs
                    for x in out:
                        sc = by_sid[x["sid"]]
                        r.obligations += 1
                        r.queries += 1 + x.get("validated", 0)
                        r.extra["scenarios"] = r.extra.get("scenarios", 0) + 1
                        r.extra["model_validations"] = r.extra.get("model_validations", 0) + x.get("validated", 0)
                        r.extra["model_validations_undecided"] = r.extra.get("model_validations_undecided", 0) + x.get("validation_unknown", 0)
                        r.extra["paths"] = r.extra.get("paths", 0) + x.get("paths", 0)
                        for b in x.get("validation_bad", [])[:2]:
                            r.inconclusive.append("x86 model validation failed for %s: %s" % (sc.name, b))
                        if x["status"] == "unsat":
                            r.discharged += 1
                            if x.get("paths", 0) > 1:
                                r.nontrivial += 1
                            if len(r.samples) < 4 and x.get("paths", 0) > 1:
                                r.samples.append({"assembler": kind, "scenario": sc.name, "tape": sc.ops, "code_bytes": len(sc.code) // 2,
                                                  "paths": x["paths"], "verdict": "unsat: JIT code == opcode semantics for all register/memory contents"})
                        elif x["status"] in ("sat", "fail"):
                            cand.append((kind, sc, x))
                        else:
                            r.inconclusive.append("scenario %s: %s %s" % (sc.name, x["status"], x.get("error", "")))
        r.extra["disagreements_checked"] = 0
        seen = set()
        for kind, sc, x in cand[:MAX_REPLAYS * 3]:
            r.extra["disagreements_checked"] += 1
            self.replay(prop, kind, sc, x, r, seen)
        r.extra["wall_s"] = round(time.time() - t0, 1)
        return r

    def replay(self, prop, kind, sc, x, r, seen):
        opnames = sorted(set(op.split()[0] for op in sc.ops if op.split()[0] not in ("Input", "Output")))
        key = "ex:%s:%s" % (kind, "+".join(opnames))
        if x["status"] == "fail":
            # decided concretely by the symbolic executor (addresses are concrete)
            path = save_replay(prop, "jit_%s_%s" % (kind, sc.name), {"engine": "ex", "kind": kind, "scenario": sc.name, "tape": sc.ops,
                                                                       "problems": x["problems"], "code": sc.code})
            if key not in seen:
                seen.add(key)
                r.findings.append(Finding(prop, key, "JIT code for %s (%s): %s" % (sc.name, kind, "; ".join(x["problems"][:3])), {}, path))
            return
        model = x.get("model") or {}
        vec = [model.get(i, 0x3F800000) for i in x.get("inputs", [])]
        if kind == "interval":
            return self.replay_interval(prop, sc, x, r, seen, key, vec)
        if kind == "fslice":
            n = x.get("size", 8) or 8
            cols = [vec[i * n:(i + 1) * n] for i in range(sc.nvars)]
            vec = [w for c in cols for w in (c + c)[:8]]
            runs = jitsmt.real_runs_fslice([sc], 24).get(sc.sid, [])
        else:
            runs = jitsmt.real_runs([sc], kind, 24).get(sc.sid, [])
        extra = jitsmt.real_runs_vec(sc, kind, [vec]) if vec else []
        bad = None
        for v, out, tr, vm_out, vm_tr in extra + runs:
            same = len(out) == len(vm_out) and all(
                a == b or (a in (0, 0x80000000) and b in (0, 0x80000000) and any(n.startswith(("Min", "Max")) for n in opnames))
                for a, b in zip(norm(out), norm(vm_out)))
            if not same or (tr is not None and tr != vm_tr):
                bad = {"vars": ["0x%08x" % w for w in v], "jit_out": ["0x%08x" % w for w in out], "jit_trace": tr,
                       "vm_out": ["0x%08x" % w for w in vm_out], "vm_trace": vm_tr}
                break
        if bad:
            path = save_replay(prop, "jit_%s_%s" % (kind, sc.name), {"engine": "ex", "kind": kind, "scenario": sc.name, "tape": sc.ops,
                                                                       "request": sc.req(), "first_bad": bad})
            if key not in seen:
                seen.add(key)
                r.findings.append(Finding(prop, key, "JIT (%s) disagrees with the interpreter on tape %s: %s" % (
                    kind, " ; ".join(sc.ops), json.dumps(bad)), {}, path))
        else:
            r.inconclusive.append("scenario %s: solver reports a counterexample (%s) that the native JIT-vs-interpreter replay does not show" % (
                sc.name, ["0x%08x" % v for v in vec]))

    def replay_interval(self, prop, sc, x, r, seen, key, vec):
        """Native replay: the real JIT interval result must be undecided or
        contain the interpreter's interval result (which the Kani harnesses
        prove to enclose every point value); traces must agree or be Both."""
        import struct

        def fl(w):
            return struct.unpack("<f", struct.pack("<I", w))[0]

        runs = jitsmt.real_runs_vec(sc, "interval", [vec]) if vec else []
        runs += jitsmt.real_runs_interval([sc], 16).get(sc.sid, [])
        bad = None
        for v, out, tr, vm_out, vm_tr in runs:
            for i in range(0, len(out), 2):
                jl, ju, kl, ku = fl(out[i]), fl(out[i + 1]), fl(vm_out[i]), fl(vm_out[i + 1])
                jn, kn = jl != jl or ju != ju, kl != kl or ku != ku
                if not (jn or (not kn and jl <= kl and ku <= ju)):
                    bad = {"vars": ["0x%08x" % w for w in v], "jit": [jl, ju], "interpreter": [kl, ku], "jit_trace": tr, "vm_trace": vm_tr}
            if not bad and tr != vm_tr and tr not in (None, "none") and vm_tr not in (None, "none"):
                if any(a != b and a != "3" for a, b in zip(tr, vm_tr)):
                    bad = {"vars": ["0x%08x" % w for w in v], "jit_trace": tr, "vm_trace": vm_tr}
            if not bad and (tr in (None, "none")) != (vm_tr in (None, "none")) and tr not in (None, "none"):
                bad = {"vars": ["0x%08x" % w for w in v], "jit_trace": tr, "vm_trace": vm_tr}
            if bad:
                break
        if bad:
            path = save_replay(prop, "jit_interval_%s" % sc.name, {"engine": "ex", "kind": "interval", "scenario": sc.name, "tape": sc.ops,
                                                                     "request": sc.req(), "first_bad": bad})
            if key not in seen:
                seen.add(key)
                r.findings.append(Finding(prop, key, "JIT interval result for tape %s is narrower than the interpreter's (not a sound enclosure): %s" % (
                    " ; ".join(sc.ops), json.dumps(bad)), {}, path))
        else:
            r.inconclusive.append("scenario %s: solver reports a counterexample (%s) that the native replay does not show" % (
                sc.name, ["0x%08x" % v for v in vec]))


def replay_file(prop, rp, path):
    """`./check <prop> --replay <file>` for E-X findings: runs the real JIT
    function and the interpreter on the recorded inputs."""
    import struct

    if "problems" in rp and "first_bad" not in rp:
        # structural finding (ABI / out-of-bounds), decided on the code bytes: re-assemble and re-run the symbolic executor
        import jitgen
        kind = rp["kind"]
        scs = [s for s in jitgen.scenarios(kind, "thorough") if s.name == rp["scenario"]]
        if not scs or jitgen.assemble(scs):
            return 2
        x = {"point": jitsmt.work_point, "fslice": jitsmt.work_fslice, "interval": jitsmt.work_interval}[kind]([(scs[0], None)])[0][0]
        print(json.dumps({k: v for k, v in x.items() if k in ("status", "problems")}, indent=1))
        if x["status"] == "fail":
            print("VIOLATION property=%s replay=%s" % (prop, path))
            return 1
        return 0 if x["status"] == "unsat" else 2
    kind = rp["kind"]
    vec = [int(w, 16) for w in rp["first_bad"]["vars"]]
    req = rp["request"] + "|" + " ".join("0x%08x" % v for v in vec)
    p = subprocess.run([T.TVDUMP, "jitrun", kind], input=req + "\n", capture_output=True, text=True)
    recs = []
    for line in p.stdout.splitlines():
        try:
            recs.append(json.loads(line))
        except Exception:
            pass
    if not recs:
        print("jitrun produced nothing: %s" % p.stderr[-300:])
        return 2
    r = recs[0]
    print(json.dumps(r, indent=1))
    out = [int(w, 16) for w in r["out"].split()]
    vm = [int(w, 16) for w in r.get("vm_out", "").split()]
    tr, vtr = r.get("trace"), r.get("vm_trace")

    def fl(w):
        return struct.unpack("<f", struct.pack("<I", w))[0]

    bad = False
    if kind == "interval":
        for i in range(0, len(out), 2):
            jl, ju, kl, ku = fl(out[i]), fl(out[i + 1]), fl(vm[i]), fl(vm[i + 1])
            jn, kn = jl != jl or ju != ju, kl != kl or ku != ku
            if not (jn or (not kn and jl <= kl and ku <= ju)):
                bad = True
        if tr not in (None, "none") and vtr not in (None, "none") and any(a != b and a != "3" for a, b in zip(tr, vtr)):
            bad = True
        if tr not in (None, "none") and vtr in (None, "none"):
            bad = True
    else:
        bad = norm(out) != norm(vm) or (tr is not None and tr != vtr)
    if bad:
        print("VIOLATION property=%s replay=%s" % (prop, path))
        return 1
    return 0
