"""E-X (SMT back end): symbolic execution of the machine code emitted by the
real fidget-jit x86-64 assemblers, decided by z3 against the opcode
semantics, for all register/memory contents."""
import json
import os
import random
import re
import struct
import subprocess
import time

import lifter
import tv_engine as T
import x86smt as X
from common import REPLAYS, Finding, log, seed
from jitgen import Scenario, assemble, scenarios, input_vectors
from smt import Solver

A_BASE, B_BASE, C_BASE, D_BASE, E_BASE, F_BASE = 0x10000000, 0x20000000, 0x30000000, 0x40000000, 0x50000000, 0x60000000
STACK_TOP = 0x70000008
STACK_LEN = 0x1000
MAX_PATHS = 600

REGN = {n: i for i, n in enumerate(lifter.REG64)}


def parse_op(s):
    s = s.strip()
    if s in lifter.REG64:
        return ("r64", lifter.REG64.index(s))
    if s in lifter.REG32:
        return ("r32", lifter.REG32.index(s))
    if s in lifter.REG8:
        return ("r8", lifter.REG8.index(s))
    m = re.match(r"^([xy])mm(\d+)$", s)
    if m:
        return (m.group(1), int(m.group(2)))
    m = re.match(r"^(\w+) PTR \[(.*)\]$", s)
    if m:
        size = lifter.SIZES[m.group(1)]
        base = index = None
        scale, disp = 1, 0
        for tm in re.finditer(r"([+-]?)\s*([^+-]+)", m.group(2)):
            sign, term = tm.group(1), tm.group(2).strip()
            if "*" in term:
                r, sc = term.split("*")
                index, scale = lifter.REG64.index(r), int(sc)
            elif term in lifter.REG64:
                if base is None:
                    base = lifter.REG64.index(term)
                else:
                    index = lifter.REG64.index(term)
            else:
                v = lifter.parse_int(term)
                disp += -v if sign == "-" else v
        return ("m", base, index, scale, disp, size)
    v = lifter.parse_int(s)
    return ("i", v)


class Path:
    def __init__(self, m, conds):
        self.m = m
        self.conds = conds


def sym_exec(code_hex, m0, call_hook):
    """Returns the list of terminated paths (machine state at `ret`)."""
    ins = lifter.disassemble(code_hex)
    idx = {off: i for i, (off, _) in enumerate(ins)}
    parsed = []
    for off, text in ins:
        parts = text.split(None, 1)
        mn = parts[0]
        ops = lifter.split_operands(parts[1]) if len(parts) > 1 else []
        parsed.append((mn, ops))
    done = []
    work = [(0, m0, [], 0)]
    while work:
        pc, m, conds, steps = work.pop()
        while True:
            if steps > 20000:
                raise X.Unsupported("instruction budget exceeded (loop?)")
            if len(done) + len(work) > MAX_PATHS:
                raise X.Unsupported("too many paths")
            mn, ops = parsed[pc]
            steps += 1
            if mn == "ret":
                m.g[4] = (m.g[4] + 8) & X.M64
                m.returned = True
                done.append(Path(m, conds))
                break
            if mn == "jmp":
                pc = idx[lifter.parse_int(ops[0])]
                continue
            if mn in X.CC:
                c = X.CC[mn](m.fl)
                tgt = idx[lifter.parse_int(ops[0])]
                if c == "true":
                    pc = tgt
                elif c == "false":
                    pc += 1
                else:
                    work.append((tgt, m.clone(), conds + [c], steps))
                    conds = conds + [X.bnot(c)]
                    pc += 1
                continue
            X.step(m, mn, [parse_op(o) for o in ops], call_hook)
            pc += 1
    return done


# ---------------------------------------------------------------------------
# opcode semantics (specification side), as SMT terms over 32-bit patterns

def s_fp(op, a, b):
    return X.fop(op, a, b)


def hash32(v):
    state = "(bvadd (bvmul %s #x2c9277b5) #xac564b05)" % v
    sh = "(bvadd (bvlshr %s #x0000001c) #x00000004)" % state
    word = "(bvmul (bvxor (bvlshr %s %s) %s) #x108ef2d9)" % (state, sh, state)
    return "(bvxor (bvlshr %s #x00000016) %s)" % (word, word)


def spec_unary(enc, base, a):
    a = X.T(a, 32)
    if base == "Neg":
        return "(bvxor %s #x80000000)" % a
    if base == "Abs":
        return "(bvand %s #x7fffffff)" % a
    if base == "Recip":
        return X.fop("div", 0x3F800000, a)
    if base == "Sqrt":
        return X.fsqrt(a)
    if base == "Square":
        return X.fop("mul", a, a)
    if base == "Floor":
        return X.fp2bv("(fp.roundToIntegral RTN %s)" % X.fp(a))
    if base == "Ceil":
        return X.fp2bv("(fp.roundToIntegral RTP %s)" % X.fp(a))
    if base == "Round":
        return X.fp2bv("(fp.roundToIntegral RNA %s)" % X.fp(a))
    if base == "Not":
        return "(ite (fp.eq %s %s) #x3f800000 #x00000000)" % (X.fp(a), X.fp(0))
    if base == "Rand":
        bits = "(bvor (bvlshr %s #x00000009) #x3f800000)" % hash32(a)
        # x - 1.0 == x + (-1.0) in IEEE arithmetic
        return X.fop("add", bits, 0xBF800000)
    return "(%s %s)" % (enc.uf("f_" + base.lower(), 1), a)


def spec_binary(enc, base, a, b):
    a, b = X.T(a, 32), X.T(b, 32)
    if base in ("Add", "Sub", "Mul", "Div"):
        return X.fop(base.lower(), a, b), None
    if base in ("Min", "Max", "And", "Or"):
        k = base.lower()
        val = "(k_%s %s %s)" % (k, a, b)
        fa, fb = X.fp(a), X.fp(b)
        if base == "Min":
            ch = "(ite (fp.lt %s %s) #x01 (ite (fp.lt %s %s) #x02 #x03))" % (fa, fb, fb, fa)
        elif base == "Max":
            ch = "(ite (fp.gt %s %s) #x01 (ite (fp.gt %s %s) #x02 #x03))" % (fa, fb, fb, fa)
        elif base == "And":
            ch = "(ite (fp.eq %s %s) #x01 #x02)" % (fa, X.fp(0))
        else:
            ch = "(ite (not (fp.eq %s %s)) #x01 #x02)" % (fa, X.fp(0))
        return val, ch
    if base == "Compare":
        fa, fb = X.fp(a), X.fp(b)
        return "(ite (fp.lt %s %s) #xbf800000 (ite (fp.gt %s %s) #x3f800000 (ite (fp.eq %s %s) #x00000000 #x7fc00000)))" % (
            fa, fb, fa, fb, fa, fb), None
    if base == "Mix":
        return hash32("(bvadd %s %s)" % (a, hash32(b))), None
    if base == "Atan":
        return "(%s %s %s)" % (enc.uf("f_atan2", 2), a, b), None
    if base == "Mod":
        return "(%s %s %s)" % (enc.uf("f_rem_euclid", 2), a, b), None
    raise X.Unsupported("no specification for " + base)


def spec_program(enc, ops, inputs):
    """Evaluates a register program with the opcode specification.
    inputs: list of 32-bit terms.  Returns (outs{index: term}, choices[list of
    8-bit terms], has_minmax)."""
    sem = T.semtable()
    cur = {}
    outs = {}
    choices = []
    minmax = False
    for op in ops:
        t = op.split()
        name = t[0]
        c = T.op_class(name)
        if c == "Input":
            cur[int(t[1])] = inputs[int(t[2])]
        elif c == "Output":
            outs[int(t[2])] = cur[int(t[1])]
        elif c == "CopyImm":
            cur[int(t[1])] = int(t[2], 16)
        elif c in ("CopyReg", "Load"):
            cur[int(t[1])] = cur[int(t[2])]
        elif c == "Store":
            cur[int(t[2])] = cur[int(t[1])]
        else:
            _, base, lhs = sem[name]
            if c == "un":
                v = spec_unary(enc, base, cur[int(t[2])])
            else:
                if c == "imm":
                    a, b = cur[int(t[2])], int(t[3], 16)
                    if lhs:
                        a, b = b, a
                else:
                    a, b = cur[int(t[2])], cur[int(t[3])]
                v, ch = spec_binary(enc, base, a, b)
                if ch is not None:
                    choices.append(ch)
                if base in ("Min", "Max"):
                    minmax = True
            # inline (no define-fun): the machine-code side builds inline terms too,
            # so structurally equal values are equal strings and the canonical
            # operand order of commutative ops agrees on both sides
            cur[int(t[1])] = v
    return outs, choices, minmax


class Enc2(T.Enc):
    def uf(self, name, arity):
        key = (name, arity)
        if key not in self.ufs:
            self.ufs.add(key)
            self.lines.append("(declare-fun %s (%s) %s)" % (name, " ".join([T.BV] * arity), T.BV))
        return name


def rel(got, want, minmax):
    g, w = X.T(got, 32), X.T(want, 32)
    parts = ["(= %s %s)" % (g, w), "(and %s %s)" % (X.isnan(g), X.isnan(w))]
    if minmax:
        parts.append("(and (fp.isZero %s) (fp.isZero %s))" % (X.fp(g), X.fp(w)))
    return "(or %s)" % " ".join(parts)


CALLER_SAVED = [0, 1, 2, 6, 7, 8, 9, 10, 11]


def make_call_hook(enc, names, abi):
    def hook(m, target):
        t = m.g[target[1]]
        if not isinstance(t, int) or t not in names:
            raise X.Unsupported("call to an unidentified target")
        nm = names[t]
        if m.g[4] % 16:
            abi.append("stack not 16-byte aligned at call to %s" % nm)
        a, b = m.y[0][0], m.y[1][0]
        if nm in ("atan2", "rem_euclid"):
            r = "(%s %s %s)" % (enc.uf("f_" + nm, 2), X.T(a, 32), X.T(b, 32))
        else:
            r = "(%s %s)" % (enc.uf("f_" + nm, 1), X.T(a, 32))
        m.calls += 1
        for g in CALLER_SAVED:
            m.g[g] = m.junk(64, "clob_g")
        for reg in range(16):
            for l in range(8):
                m.y[reg][l] = m.junk(32, "clob_y")
        for f in m.fl:
            m.fl[f] = m.symb("clob_f%d_%s" % (m.calls, f))
        m.y[0][0] = r
    return hook


class PointModel:
    """Symbolic execution of one point-assembler scenario."""

    def __init__(self, sc):
        self.sc = sc
        self.enc = Enc2(fp=True, mode="base")
        enc = self.enc
        self.nch = sum(1 for op in sc.ops if op.split()[0] in T.CHOICE_KIND)
        nch = self.nch
        self.nwords = (nch + 4 + 3) // 4
        regions = [X.Region("vars", A_BASE, 4 * max(sc.nvars, 1), writable=False),
                   X.Region("choices", B_BASE, 4 * self.nwords), X.Region("simplify", C_BASE, 4),
                   X.Region("out", D_BASE, 4 * sc.nout)]
        m0 = X.Machine(enc.lines, regions, STACK_TOP, STACK_LEN)
        m0.g[7], m0.g[6], m0.g[2], m0.g[1], m0.g[4] = A_BASE, B_BASE, C_BASE, D_BASE, STACK_TOP
        self.init_callee = {r: m0.g[r] for r in (3, 5, 12, 13, 14, 15)}
        names = {}
        for c in sc.calls:
            off, addr, nm = c.split(":")
            if nm.startswith("un"):
                raise X.Unsupported("callback at %s could not be identified" % addr)
            names[int(addr, 16)] = nm
        self.abi = []
        self.inputs = [m0.load32(A_BASE + 4 * i) for i in range(sc.nvars)]
        self.init_choice_words = [m0.load32(B_BASE + 4 * i) for i in range(self.nwords)]
        self.init_simplify = m0.load32(C_BASE)
        self.paths = sym_exec(sc.code, m0, make_call_hook(enc, names, self.abi))
        self.outs, self.choices, self.minmax = spec_program(enc, sc.ops, self.inputs)
        self.has_calls = any(p.m.calls for p in self.paths)

    @staticmethod
    def byte(words, j):
        w = words[j // 4]
        sh = 8 * (j % 4)
        return "((_ extract %d %d) %s)" % (sh + 7, sh, X.T(w, 32))

    def final_choice_words(self, m):
        return [m.mem.get(B_BASE + 4 * i, self.init_choice_words[i]) for i in range(self.nwords)]

    def property_goal(self):
        """(problems decided concretely, SMT goal whose unsatisfiability is the property)"""
        sc = self.sc
        problems = list(self.abi)
        disj = []
        for p in self.paths:
            m = p.m
            ob = []
            if m.oob:
                problems.append("out-of-bounds access: %s" % [(k, hex(a)) for k, a in m.oob[:3]])
            if m.g[4] != STACK_TOP + 8:
                problems.append("rsp not restored: %r" % (m.g[4],))
            for r, v in self.init_callee.items():
                if m.g[r] != v:
                    ob.append("(= %s %s)" % (X.T(m.g[r], 64), X.T(v, 64)))
            if any(a >= STACK_TOP for a in m.writes):
                problems.append("wrote into the caller's frame")
            for i in range(sc.nout):
                got = m.mem.get(D_BASE + 4 * i)
                if got is None or (D_BASE + 4 * i) not in m.writes:
                    problems.append("output %d never written" % i)
                    continue
                ob.append(rel(got, self.outs[i], self.minmax))
            fin = self.final_choice_words(m)
            fin_s = m.mem.get(C_BASE, self.init_simplify)
            fs = "((_ extract 7 0) %s)" % X.T(fin_s, 32)
            reported = "(not (= %s #x00))" % fs
            chob = []
            for j in range(4 * self.nwords):
                if j < self.nch:
                    chob.append("(= %s %s)" % (self.byte(fin, j), self.choices[j]))
                else:
                    ob.append("(= %s #x00)" % self.byte(fin, j))
            simp = X.bor(*["(not (= %s #x03))" % c for c in self.choices])
            # the evaluator hands in a zeroed trace and flag; a trace is reported
            # iff the flag ends up non-zero, and then every entry must be right
            ob.append("(= %s (ite %s #x01 #x00))" % (fs, simp))
            ob.append("(or (not %s) (and %s))" % (reported, " ".join(chob) if chob else "true"))
            ob.append("(= ((_ extract 31 8) %s) ((_ extract 31 8) %s))" % (X.T(fin_s, 32), X.T(self.init_simplify, 32)))
            disj.append("(and %s (not (and %s)))" % (X.band(*(self.zero_pre() + p.conds)), " ".join(ob)))
        goal = "(or %s)" % " ".join(disj) if len(disj) > 1 else disj[0]
        return problems, goal

    def zero_pre(self):
        pre = ["(= %s #x00000000)" % w for w in self.init_choice_words if isinstance(w, str)]
        pre.append("(= ((_ extract 7 0) %s) #x00)" % X.T(self.init_simplify, 32))
        return pre

    def validation_goal(self, vec, real_out, real_trace):
        """The model run on concrete inputs (choices and the simplify byte
        cleared, as the evaluator does) must give exactly what the real JIT
        function produced on this CPU, whatever the garbage in other state."""
        pre = ["(= %s %s)" % (x, X.bv(v, 32)) for x, v in zip(self.inputs, vec) if isinstance(x, str)]
        pre += ["(= %s #x00000000)" % w for w in self.init_choice_words if isinstance(w, str)]
        pre.append("(= ((_ extract 7 0) %s) #x00)" % X.T(self.init_simplify, 32))
        disj = []
        for p in self.paths:
            m = p.m
            ok = []
            for i, v in enumerate(real_out):
                got = X.T(m.mem.get(D_BASE + 4 * i, 0), 32)
                if (v & 0x7F800000) == 0x7F800000 and (v & 0x7FFFFF):
                    ok.append(X.isnan(got))
                else:
                    ok.append("(= %s %s)" % (got, X.bv(v, 32)))
            fin = self.final_choice_words(m)
            fin_s = m.mem.get(C_BASE, self.init_simplify)
            if real_trace == "none":
                ok.append("(= ((_ extract 7 0) %s) #x00)" % X.T(fin_s, 32))
            else:
                ok.append("(not (= ((_ extract 7 0) %s) #x00))" % X.T(fin_s, 32))
                for j, ch in enumerate(real_trace):
                    ok.append("(= %s %s)" % (self.byte(fin, j), X.bv(int(ch), 8)))
            disj.append((X.band(*p.conds), "(and %s)" % " ".join(ok)))
        if self.has_calls:
            # libm values are uninterpreted: the real results must be *possible*
            goal = "(and %s (or %s))" % (" ".join(pre), " ".join("(and %s %s)" % (c, k) for c, k in disj))
            return goal, "sat"
        goal = "(and %s (or %s))" % (" ".join(pre), " ".join("(and %s (not %s))" % (c, k) for c, k in disj))
        return goal, "unsat"


def check_point(sc, solver, validate_vectors=None):
    try:
        pm = PointModel(sc)
    except X.Unsupported as e:
        return {"status": "error", "error": str(e)}
    problems, goal = pm.property_goal()
    out = {"paths": len(pm.paths), "validated": 0, "validation_bad": []}
    for vec, real_out, real_trace in validate_vectors or []:
        vgoal, want = pm.validation_goal(vec, real_out, real_trace)
        res, _ = T.query(solver, pm.enc, vgoal)
        out["validated"] += 1
        if res == "unknown":
            out["validation_unknown"] = out.get("validation_unknown", 0) + 1
        elif res != want:
            out["validation_bad"].append("inputs %s: real JIT gave %s / %s, the model says that is %s" % (
                ["0x%08x" % v for v in vec], ["0x%08x" % v for v in real_out], real_trace,
                "impossible" if want == "sat" else "not implied (%s)" % res))
    if problems:
        out.update(status="fail", problems=problems)
        return out
    xs = [i for i in pm.inputs if isinstance(i, str)]
    res, model = T.query(solver, pm.enc, goal, xs, fallback_prelude=T.PRELUDE_FP)
    out.update(status=res, inputs=xs)
    if res == "sat":
        out["model"] = model
    return out


_solver2 = None


def work_point(chunk):
    global _solver2
    if _solver2 is None:
        _solver2 = Solver("z3", timeout_ms=3000)
        _solver2.send(T.PRELUDE_FP)
    t0 = _solver2.time_s
    out = []
    for sc, vv in chunk:
        r = check_point(sc, _solver2, vv)
        r["sid"] = sc.sid
        out.append(r)
    return out, _solver2.time_s - t0


def real_runs(scs, kind, count):
    """Runs the real JIT function (and the interpreter) natively on `count`
    input vectors per scenario; returns {sid: [(vec, out words, trace, vm_out, vm_trace)]}."""
    rnd = random.Random(seed() + 23)
    reqs = []
    vecs_by = {}
    for s in scs:
        vecs = input_vectors(s.nvars, rnd, count) if s.nvars else [[]]
        random.Random(seed() + s.sid).shuffle(vecs)
        vecs = vecs[:count]
        vecs_by[s.sid] = vecs
        reqs.append(s.req([v if v else [0] for v in vecs]))
    p = subprocess.run([T.TVDUMP, "jitrun", kind], input="\n".join(reqs) + "\n", capture_output=True, text=True)
    out = {}
    for line in p.stdout.splitlines():
        try:
            r = json.loads(line)
        except Exception:
            continue
        vec = [int(w, 16) for w in r["vars"].split()]
        out.setdefault(r["id"], []).append((vec, [int(w, 16) for w in r["out"].split()], r.get("trace"),
                                             [int(w, 16) for w in r.get("vm_out", "").split()], r.get("vm_trace")))
    return out


def real_runs_vec(sc, kind, vecs):
    p = subprocess.run([T.TVDUMP, "jitrun", kind], input=sc.req(vecs) + "\n", capture_output=True, text=True)
    out = []
    for line in p.stdout.splitlines():
        try:
            r = json.loads(line)
        except Exception:
            continue
        out.append(([int(w, 16) for w in r["vars"].split()], [int(w, 16) for w in r["out"].split()], r.get("trace"),
                    [int(w, 16) for w in r.get("vm_out", "").split()], r.get("vm_trace")))
    return out


# ---------------------------------------------------------------------------
# float-slice assembler: rdi = *const *const f32, rsi = *const *mut f32, rdx = size

STRIDE = 0x100


class FsliceModel:
    def __init__(self, sc, size):
        self.sc = sc
        self.size = size
        self.enc = Enc2(fp=True, mode="base")
        enc = self.enc
        nv, no = max(sc.nvars, 1), sc.nout
        regions = [X.Region("var_ptrs", A_BASE, 8 * nv, writable=False), X.Region("out_ptrs", B_BASE, 8 * no, writable=False)]
        for i in range(nv):
            regions.append(X.Region("var%d" % i, E_BASE + i * STRIDE, 4 * size, writable=False))
        for i in range(no):
            regions.append(X.Region("out%d" % i, F_BASE + i * STRIDE, 4 * size))
        m0 = X.Machine(enc.lines, regions, STACK_TOP, STACK_LEN)
        m0.g[7], m0.g[6], m0.g[2], m0.g[4] = A_BASE, B_BASE, size, STACK_TOP
        for i in range(nv):
            m0.mem[A_BASE + 8 * i] = E_BASE + i * STRIDE
            m0.mem[A_BASE + 8 * i + 4] = 0
        for i in range(no):
            m0.mem[B_BASE + 8 * i] = F_BASE + i * STRIDE
            m0.mem[B_BASE + 8 * i + 4] = 0
        self.init_callee = {r: m0.g[r] for r in (3, 5, 12, 13, 14, 15)}
        names = {}
        for c in sc.calls:
            off, addr, nm = c.split(":")
            if nm.startswith("un"):
                raise X.Unsupported("callback at %s could not be identified" % addr)
            names[int(addr, 16)] = nm
        self.abi = []
        self.inputs = [[m0.load32(E_BASE + i * STRIDE + 4 * l) for l in range(size)] for i in range(sc.nvars)]
        self.paths = sym_exec(sc.code, m0, make_call_hook(enc, names, self.abi))
        self.lane_outs = []
        self.minmax = False
        for l in range(size):
            outs, _, mm = spec_program(enc, sc.ops, [col[l] for col in self.inputs])
            self.minmax |= mm
            self.lane_outs.append(outs)
        self.has_calls = any(p.m.calls for p in self.paths)

    def property_goal(self):
        """Returns (problems, [goal per (output, lane) + one for the frame])"""
        sc = self.sc
        problems = list(self.abi)
        per = {}
        for p in self.paths:
            m = p.m
            frame = []
            if m.oob:
                problems.append("out-of-bounds access: %s" % [(k, hex(a)) for k, a in m.oob[:3]])
            if m.g[4] != STACK_TOP + 8:
                problems.append("rsp not restored: %r" % (m.g[4],))
            for r, v in self.init_callee.items():
                if m.g[r] != v:
                    frame.append("(= %s %s)" % (X.T(m.g[r], 64), X.T(v, 64)))
            if any(a >= STACK_TOP for a in m.writes):
                problems.append("wrote into the caller's frame")
            c = X.band(*p.conds)
            if frame:
                per.setdefault("frame", []).append("(and %s (not (and %s)))" % (c, " ".join(frame)))
            for i in range(sc.nout):
                for l in range(self.size):
                    a = F_BASE + i * STRIDE + 4 * l
                    if a not in m.writes:
                        problems.append("output %d lane %d never written" % (i, l))
                        continue
                    per.setdefault((i, l), []).append("(and %s (not %s))" % (c, rel(m.mem[a], self.lane_outs[l][i], self.minmax)))
        goals = ["(or %s)" % " ".join(v) if len(v) > 1 else v[0] for v in per.values()]
        return problems, goals

    def validation_goal(self, vec, real_out):
        """vec: nvars*size input words (column-major); real_out: nout*size words"""
        pre = []
        for i, col in enumerate(self.inputs):
            for l, x in enumerate(col):
                if isinstance(x, str):
                    pre.append("(= %s %s)" % (x, X.bv(vec[i * self.size + l], 32)))
        disj = []
        for p in self.paths:
            m = p.m
            ok = []
            for i in range(self.sc.nout):
                for l in range(self.size):
                    v = real_out[i * self.size + l]
                    got = X.T(m.mem.get(F_BASE + i * STRIDE + 4 * l, 0), 32)
                    if (v & 0x7F800000) == 0x7F800000 and (v & 0x7FFFFF):
                        ok.append(X.isnan(got))
                    else:
                        ok.append("(= %s %s)" % (got, X.bv(v, 32)))
            disj.append((X.band(*p.conds), "(and %s)" % " ".join(ok)))
        if self.has_calls:
            return "(and %s (or %s))" % (" ".join(pre), " ".join("(and %s %s)" % (c, k) for c, k in disj)), "sat"
        return "(and %s (or %s))" % (" ".join(pre), " ".join("(and %s (not %s))" % (c, k) for c, k in disj)), "unsat"


def check_fslice(sc, solver, validate_vectors=None):
    out = {"paths": 0, "validated": 0, "validation_bad": [], "status": "unsat"}
    for size in (8, 16, 0):
        try:
            fm = FsliceModel(sc, size)
        except X.Unsupported as e:
            return {"status": "error", "error": "size %d: %s" % (size, e)}
        out["paths"] += len(fm.paths)
        if size == 8 and not (fm.has_calls and len(sc.ops) > 8):
            for vec, real_out in validate_vectors or []:
                vgoal, want = fm.validation_goal(vec, real_out)
                res, _ = T.query(solver, fm.enc, vgoal, fallback_prelude=T.PRELUDE_FP)
                out["validated"] += 1
                if res == "unknown":
                    out["validation_unknown"] = out.get("validation_unknown", 0) + 1
                elif res != want:
                    out["validation_bad"].append("inputs %s: real JIT output is %s under the model" % (
                        ["0x%08x" % v for v in vec[:4]], "impossible" if want == "sat" else "not implied (%s)" % res))
        problems, goal = fm.property_goal()
        if problems:
            out.update(status="fail", problems=["size %d: %s" % (size, p) for p in problems])
            return out
        xs = [x for col in fm.inputs for x in col if isinstance(x, str)]
        for goal in goal:
            res, model = T.query(solver, fm.enc, goal, xs, fallback_prelude=T.PRELUDE_FP)
            if res != "unsat":
                out.update(status=res, inputs=xs, size=size)
                if res == "sat":
                    out["model"] = model
                return out
    return out


def work_fslice(chunk):
    global _solver2
    if _solver2 is None:
        _solver2 = Solver("z3", timeout_ms=3000)
        _solver2.send(T.PRELUDE_FP)
    t0 = _solver2.time_s
    out = []
    for sc, vv in chunk:
        r = check_fslice(sc, _solver2, vv)
        r["sid"] = sc.sid
        out.append(r)
    return out, _solver2.time_s - t0


def real_runs_fslice(scs, count):
    """8-lane runs of the real float-slice JIT function and the interpreter."""
    out = {}
    reqs = []
    for s in scs:
        if s.nvars == 0:
            continue
        rnd = random.Random(seed() + s.sid)
        vecs = []
        for _ in range(count):
            vecs.append([rnd.choice(jitgen_specials()) if rnd.random() < 0.5 else
                         struct.unpack("<I", struct.pack("<f", rnd.uniform(-8, 8)))[0] for _ in range(8 * s.nvars)])
        reqs.append(s.req(vecs))
    p = subprocess.run([T.TVDUMP, "jitrun", "fslice"], input="\n".join(reqs) + "\n", capture_output=True, text=True)
    for line in p.stdout.splitlines():
        try:
            r = json.loads(line)
        except Exception:
            continue
        out.setdefault(r["id"], []).append(([int(w, 16) for w in r["vars"].split()], [int(w, 16) for w in r["out"].split()],
                                             None, [int(w, 16) for w in r.get("vm_out", "").split()], None))
    return out


def jitgen_specials():
    import jitgen

    return jitgen.SPECIALS


# ---------------------------------------------------------------------------
# interval assembler: rdi = *const Interval, rsi = choices, rdx = simplify, rcx = *mut Interval
# Specification side: SMT transcription of the Interval kernels of
# fidget_core::types::interval (whose enclosure/choice soundness the Kani
# harnesses decide on the real Rust code).  The JIT result must be a superset
# of the kernel's result (or undecided), its choice equal or more conservative.

ZERO, ONE, MONE, NANB = 0x00000000, 0x3F800000, 0xBF800000, 0x7FC00000


def fnan(a):
    return X.isnan(a)


def flt(a, b):
    return X.fcmp("lt", a, b)


def fle(a, b):
    return X.fcmp("leq", a, b)


def feq(a, b):
    return X.fcmp("eq", a, b)


def rmin(a, b):
    a, b = X.T(a, 32), X.T(b, 32)
    return "(ite %s %s (ite %s %s (ite %s %s %s)))" % (fnan(a), b, fnan(b), a, flt(a, b), a, b)


def rmax(a, b):
    a, b = X.T(a, 32), X.T(b, 32)
    return "(ite %s %s (ite %s %s (ite %s %s %s)))" % (fnan(a), b, fnan(b), a, flt(b, a), a, b)


def fneg(a):
    return "(bvxor %s #x80000000)" % X.T(a, 32)


def ihasnan(I):
    return X.bor(fnan(I[0]), fnan(I[1]))


def icontains0(I):
    return X.band(fle(I[0], ZERO), fle(ZERO, I[1]))


def iite(c, A, B):
    return (X.ite(c, X.T(A[0], 32), X.T(B[0], 32)), X.ite(c, X.T(A[1], 32), X.T(B[1], 32)))


NANI = (NANB, NANB)


def from_bounds(l, u):
    return iite(X.bor(fnan(l), fnan(u)), NANI, (l, u))


def fold4(vals, f):
    acc = vals[0]
    for v in vals[1:]:
        acc = f(acc, v)
    return acc


def K_unary(enc, base, A):
    l, u = X.T(A[0], 32), X.T(A[1], 32)
    A = (l, u)
    if base == "Neg":
        return (fneg(u), fneg(l))
    if base == "Abs":
        return iite(flt(l, ZERO), iite(flt(X.bv(ZERO, 32), u), (ZERO, rmax(u, fneg(l))), (fneg(u), fneg(l))), A)
    if base == "Square":
        sq = lambda x: X.fop("mul", x, x)
        absx = lambda x: "(bvand %s #x7fffffff)" % x
        return iite(flt(u, ZERO), (sq(u), sq(l)), iite(flt(X.bv(ZERO, 32), l), (sq(l), sq(u)),
                                                     iite(ihasnan(A), NANI, (ZERO, sq(rmax(absx(l), absx(u)))))))
    if base == "Sqrt":
        return iite(flt(l, ZERO), NANI, (X.fsqrt(l), X.fsqrt(u)))
    if base == "Recip":
        return iite(X.bor(flt(X.bv(ZERO, 32), l), flt(u, ZERO)), (X.fop("div", ONE, u), X.fop("div", ONE, l)), NANI)
    if base in ("Floor", "Ceil", "Round"):
        rm = {"Floor": "RTN", "Ceil": "RTP", "Round": "RNA"}[base]
        f = lambda x: X.fp2bv("(fp.roundToIntegral %s %s)" % (rm, X.fp(x)))
        return (f(l), f(u))
    if base == "Not":
        return iite(X.band(X.bnot(icontains0(A)), X.bnot(ihasnan(A))), (ZERO, ZERO),
                    iite(X.band(feq(l, ZERO), feq(u, ZERO)), (ONE, ONE), (ZERO, ONE)))
    if base == "Rand":
        amb = X.bor(ihasnan(A), "(not (= %s %s))" % (l, u), feq(l, ZERO))
        bits = "(bvor (bvlshr %s #x00000009) #x3f800000)" % hash32(l)
        r = X.fop("add", bits, MONE)
        return iite(amb, (ZERO, ONE), (r, r))
    nm = base.lower()
    return ("(%s %s %s)" % (enc.uf("il_" + nm, 2), l, u), "(%s %s %s)" % (enc.uf("iu_" + nm, 2), l, u))


def K_binary(enc, base, A, B, imm_form=None):
    """Returns (interval, choice term or None)."""
    A = (X.T(A[0], 32), X.T(A[1], 32))
    B = (X.T(B[0], 32), X.T(B[1], 32))
    nan = X.bor(ihasnan(A), ihasnan(B))
    if base == "Add":
        return from_bounds(X.fop("add", A[0], B[0]), X.fop("add", A[1], B[1])), None
    if base == "Sub":
        return from_bounds(X.fop("sub", A[0], B[1]), X.fop("sub", A[1], B[0])), None
    if base == "Mul":
        if imm_form == "reg_imm":
            k = B[0]
            neg = from_bounds(X.fop("mul", A[1], k), X.fop("mul", A[0], k))
            pos = from_bounds(X.fop("mul", A[0], k), X.fop("mul", A[1], k))
            return iite(X.bor(ihasnan(A), fnan(k)), NANI, iite(flt(k, ZERO), neg, pos)), None
        ps = [X.fop("mul", a, b) for a in A for b in B]
        return iite(nan, NANI, (fold4(ps, rmin), fold4(ps, rmax))), None
    if base == "Div":
        qs = [X.fop("div", a, b) for a in A for b in B]
        ok = X.bor(flt(X.bv(ZERO, 32), B[0]), flt(B[1], ZERO))
        return iite(ihasnan(A), NANI, iite(ok, (fold4(qs, rmin), fold4(qs, rmax)), NANI)), None
    if base == "Min":
        ch = "(ite %s #x03 (ite %s #x01 (ite %s #x02 #x03)))" % (nan, flt(A[1], B[0]), flt(B[1], A[0]))
        return iite(nan, NANI, (rmin(A[0], B[0]), rmin(A[1], B[1]))), ch
    if base == "Max":
        ch = "(ite %s #x03 (ite %s #x01 (ite %s #x02 #x03)))" % (nan, flt(B[1], A[0]), flt(A[1], B[0]))
        return iite(nan, NANI, (rmax(A[0], B[0]), rmax(A[1], B[1]))), ch
    if base == "And":
        z = X.band(feq(A[0], ZERO), feq(A[1], ZERO))
        nc = X.bnot(icontains0(A))
        ch = "(ite %s #x03 (ite %s #x01 (ite %s #x02 #x03)))" % (nan, z, nc)
        return iite(nan, NANI, iite(z, (ZERO, ZERO), iite(nc, B, (rmin(B[0], ZERO), rmax(B[1], ZERO))))), ch
    if base == "Or":
        z = X.band(feq(A[0], ZERO), feq(A[1], ZERO))
        nc = X.bnot(icontains0(A))
        ch = "(ite %s #x03 (ite %s #x01 (ite %s #x02 #x03)))" % (nan, nc, z)
        return iite(nan, NANI, iite(nc, A, iite(z, B, (rmin(A[0], B[0]), rmax(A[1], B[1]))))), ch
    if base == "Compare":
        unit = X.band(feq(A[0], A[1]), feq(B[0], B[1]), feq(A[0], B[0]))
        return iite(nan, NANI, iite(flt(A[1], B[0]), (MONE, MONE), iite(flt(B[1], A[0]), (ONE, ONE),
                                                                       iite(unit, (ZERO, ZERO), (MONE, ONE))))), None
    if base == "Mix":
        amb = X.bor(nan, "(not (= %s %s))" % A, "(not (= %s %s))" % B, feq(A[0], ZERO), feq(B[0], ZERO))
        h = hash32("(bvadd %s %s)" % (A[0], hash32(B[0])))
        return iite(amb, NANI, (h, h)), None
    nm = {"Atan": "atan2", "Mod": "rem_euclid"}[base]
    args = " ".join(A + B)
    return ("(%s %s)" % (enc.uf("il_" + nm, 4), args), "(%s %s)" % (enc.uf("iu_" + nm, 4), args)), None


def spec_interval_program(enc, ops, inputs):
    sem = T.semtable()
    cur = {}
    outs = {}
    choices = []
    for op in ops:
        t = op.split()
        name = t[0]
        c = T.op_class(name)
        if c == "Input":
            cur[int(t[1])] = inputs[int(t[2])]
        elif c == "Output":
            outs[int(t[2])] = cur[int(t[1])]
        elif c == "CopyImm":
            k = int(t[2], 16)
            cur[int(t[1])] = (k, k)
        elif c in ("CopyReg", "Load"):
            cur[int(t[1])] = cur[int(t[2])]
        elif c == "Store":
            cur[int(t[2])] = cur[int(t[1])]
        else:
            _, base, lhs = sem[name]
            if c == "un":
                v = K_unary(enc, base, cur[int(t[2])])
            else:
                form = None
                if c == "imm":
                    k = int(t[3], 16)
                    a, b = cur[int(t[2])], (k, k)
                    form = "reg_imm"
                    if lhs:
                        a, b = b, a
                        form = "imm_reg"
                else:
                    a, b = cur[int(t[2])], cur[int(t[3])]
                v, ch = K_binary(enc, base, a, b, form if base == "Mul" else None)
                if ch is not None:
                    nm = enc.fresh("ch")
                    enc.lines.append("(define-fun %s () (_ BitVec 8) %s)" % (nm, ch))
                    choices.append(nm)
            cur[int(t[1])] = (X.T(v[0], 32), X.T(v[1], 32))
    return outs, choices


def make_interval_call_hook(enc, names, abi):
    def hook(m, target):
        t = m.g[target[1]]
        if not isinstance(t, int) or t not in names:
            raise X.Unsupported("call to an unidentified target")
        nm = names[t]
        if m.g[4] % 16:
            abi.append("stack not 16-byte aligned at call to %s" % nm)
        a = (X.T(m.y[0][0], 32), X.T(m.y[0][1], 32))
        b = (X.T(m.y[1][0], 32), X.T(m.y[1][1], 32))
        if nm in ("atan2", "rem_euclid"):
            args = " ".join(a + b)
            r = ("(%s %s)" % (enc.uf("il_" + nm, 4), args), "(%s %s)" % (enc.uf("iu_" + nm, 4), args))
        else:
            r = ("(%s %s %s)" % (enc.uf("il_" + nm, 2), a[0], a[1]), "(%s %s %s)" % (enc.uf("iu_" + nm, 2), a[0], a[1]))
        m.calls += 1
        for g in CALLER_SAVED:
            m.g[g] = m.junk(64, "clob_g")
        for reg in range(16):
            for l in range(8):
                m.y[reg][l] = m.junk(32, "clob_y")
        for f in m.fl:
            m.fl[f] = m.symb("clob_f%d_%s" % (m.calls, f))
        m.y[0][0], m.y[0][1] = r[0], r[1]
    return hook


def superset(J, K):
    """JIT interval J is undecided or a superset of the kernel's K"""
    jl, ju, kl, ku = (X.T(v, 32) for v in (J[0], J[1], K[0], K[1]))
    return "(or %s (and (not %s) %s %s))" % (ihasnan((jl, ju)), ihasnan((kl, ku)), fle(jl, kl), fle(ku, ju))


class IntervalModel(PointModel):
    def __init__(self, sc):
        self.sc = sc
        self.enc = Enc2(fp=True, mode="base")
        enc = self.enc
        self.nch = sum(1 for op in sc.ops if op.split()[0] in T.CHOICE_KIND)
        self.nwords = (self.nch + 4 + 3) // 4
        regions = [X.Region("vars", A_BASE, 8 * max(sc.nvars, 1), writable=False),
                   X.Region("choices", B_BASE, 4 * self.nwords), X.Region("simplify", C_BASE, 4),
                   X.Region("out", D_BASE, 8 * sc.nout)]
        m0 = X.Machine(enc.lines, regions, STACK_TOP, STACK_LEN)
        m0.g[7], m0.g[6], m0.g[2], m0.g[1], m0.g[4] = A_BASE, B_BASE, C_BASE, D_BASE, STACK_TOP
        self.init_callee = {r: m0.g[r] for r in (3, 5, 12, 13, 14, 15)}
        names = {}
        for c in sc.calls:
            off, addr, nm = c.split(":")
            if nm.startswith("un"):
                raise X.Unsupported("callback at %s could not be identified" % addr)
            names[int(addr, 16)] = nm
        self.abi = []
        self.inputs = [(m0.load32(A_BASE + 8 * i), m0.load32(A_BASE + 8 * i + 4)) for i in range(sc.nvars)]
        self.init_choice_words = [m0.load32(B_BASE + 4 * i) for i in range(self.nwords)]
        self.init_simplify = m0.load32(C_BASE)
        X.NORMALIZE = False
        try:
            self.paths = sym_exec(sc.code, m0, make_interval_call_hook(enc, names, self.abi))
            self.outs, self.choices = spec_interval_program(enc, sc.ops, self.inputs)
        finally:
            X.NORMALIZE = True
        self.has_calls = any(p.m.calls for p in self.paths)

    def property_goal(self):
        sc = self.sc
        problems = list(self.abi)
        disj = []
        # callers pass valid intervals (Interval::new): lower <= upper or both NaN.
        # (Intermediates with a single NaN bound, which only JIT arithmetic can
        # produce, are covered by the two-op scenarios, where the solver sees
        # exactly the reachable ones.)
        pre = [X.bor(fle(l, u), X.band(fnan(l), fnan(u))) for l, u in self.inputs]
        for p in self.paths:
            m = p.m
            ob = []
            if m.oob:
                problems.append("out-of-bounds access: %s" % [(k, hex(a)) for k, a in m.oob[:3]])
            if m.g[4] != STACK_TOP + 8:
                problems.append("rsp not restored: %r" % (m.g[4],))
            for r, v in self.init_callee.items():
                if m.g[r] != v:
                    ob.append("(= %s %s)" % (X.T(m.g[r], 64), X.T(v, 64)))
            if any(a >= STACK_TOP for a in m.writes):
                problems.append("wrote into the caller's frame")
            for i in range(sc.nout):
                a = D_BASE + 8 * i
                if a not in m.writes or a + 4 not in m.writes:
                    problems.append("output %d never written" % i)
                    continue
                ob.append(superset((m.mem[a], m.mem[a + 4]), self.outs[i]))
            fin = self.final_choice_words(m)
            fin_s = m.mem.get(C_BASE, self.init_simplify)
            fs = "((_ extract 7 0) %s)" % X.T(fin_s, 32)
            reported = "(not (= %s #x00))" % fs
            some_decided, chob = [], []
            for j in range(4 * self.nwords):
                if j < self.nch:
                    want = self.choices[j]
                    got = self.byte(fin, j)
                    chob.append("(or (= %s %s) (= %s #x03))" % (got, want, got))
                    some_decided.append("(not (= %s #x03))" % want)
                else:
                    ob.append("(= %s #x00)" % self.byte(fin, j))
            # flag is 0 or 1, and only set if some clause is decided by the kernel
            ob.append("(or (= %s #x00) (and (= %s #x01) %s))" % (fs, fs, X.bor(*some_decided)))
            ob.append("(or (not %s) (and %s))" % (reported, " ".join(chob) if chob else "true"))
            ob.append("(= ((_ extract 31 8) %s) ((_ extract 31 8) %s))" % (X.T(fin_s, 32), X.T(self.init_simplify, 32)))
            disj.append("(and %s (not (and %s)))" % (X.band(*(pre + self.zero_pre() + p.conds)), " ".join(ob)))
        goal = "(or %s)" % " ".join(disj) if len(disj) > 1 else disj[0]
        return problems, goal

    def validation_goal(self, vec, real_out, real_trace):
        pre = []
        for (l, u), k in zip(self.inputs, range(len(self.inputs))):
            pre.append("(= %s %s)" % (l, X.bv(vec[2 * k], 32)))
            pre.append("(= %s %s)" % (u, X.bv(vec[2 * k + 1], 32)))
        pre += ["(= %s #x00000000)" % w for w in self.init_choice_words if isinstance(w, str)]
        pre.append("(= ((_ extract 7 0) %s) #x00)" % X.T(self.init_simplify, 32))
        disj = []
        for p in self.paths:
            m = p.m
            ok = []
            for i, v in enumerate(real_out):
                got = X.T(m.mem.get(D_BASE + 4 * i, 0), 32)
                if (v & 0x7F800000) == 0x7F800000 and (v & 0x7FFFFF):
                    ok.append(X.isnan(got))
                else:
                    ok.append("(= %s %s)" % (got, X.bv(v, 32)))
            fin = self.final_choice_words(m)
            fin_s = m.mem.get(C_BASE, self.init_simplify)
            if real_trace == "none":
                ok.append("(= ((_ extract 7 0) %s) #x00)" % X.T(fin_s, 32))
            else:
                ok.append("(not (= ((_ extract 7 0) %s) #x00))" % X.T(fin_s, 32))
                for j, ch in enumerate(real_trace):
                    ok.append("(= %s %s)" % (self.byte(fin, j), X.bv(int(ch), 8)))
            disj.append((X.band(*p.conds), "(and %s)" % " ".join(ok)))
        if self.has_calls:
            return "(and %s (or %s))" % (" ".join(pre), " ".join("(and %s %s)" % (c, k) for c, k in disj)), "sat"
        return "(and %s (or %s))" % (" ".join(pre), " ".join("(and %s (not %s))" % (c, k) for c, k in disj)), "unsat"


def check_interval(sc, solver, validate_vectors=None):
    try:
        pm = IntervalModel(sc)
    except X.Unsupported as e:
        return {"status": "error", "error": str(e)}
    problems, goal = pm.property_goal()
    out = {"paths": len(pm.paths), "validated": 0, "validation_bad": []}
    for vec, real_out, real_trace in validate_vectors or []:
        vgoal, want = pm.validation_goal(vec, real_out, real_trace)
        res, _ = T.query(solver, pm.enc, vgoal)
        out["validated"] += 1
        if res == "unknown":
            out["validation_unknown"] = out.get("validation_unknown", 0) + 1
        elif res != want:
            out["validation_bad"].append("inputs %s: real JIT gave %s / %s, the model says that is %s" % (
                ["0x%08x" % v for v in vec], ["0x%08x" % v for v in real_out], real_trace,
                "impossible" if want == "sat" else "not implied (%s)" % res))
    if problems:
        out.update(status="fail", problems=problems)
        return out
    xs = [x for I in pm.inputs for x in I if isinstance(x, str)]
    res, model = T.query(solver, pm.enc, goal, xs, fallback_prelude=T.PRELUDE_FP)
    out.update(status=res, inputs=xs)
    if res == "sat":
        out["model"] = model
    return out


def work_interval(chunk):
    global _solver2
    if _solver2 is None:
        _solver2 = Solver("z3", timeout_ms=3000)
        _solver2.send(T.PRELUDE_FP)
    t0 = _solver2.time_s
    out = []
    for sc, vv in chunk:
        r = check_interval(sc, _solver2, vv)
        r["sid"] = sc.sid
        out.append(r)
    return out, _solver2.time_s - t0


def real_runs_interval(scs, count):
    out = {}
    reqs = []
    sp = [0xC0000000, 0xBF800000, 0x80000000, 0x00000000, 0x3F000000, 0x3F800000, 0x40000000, 0x40490FDB, 0x7F800000]
    for s in scs:
        if s.nvars == 0:
            continue
        rnd = random.Random(seed() + s.sid)
        vecs = []
        for _ in range(count):
            v = []
            for _ in range(s.nvars):
                if rnd.random() < 0.1:
                    v += [0x7FC00000, 0x7FC00000]
                    continue
                a, b = rnd.choice(sp), rnd.choice(sp)
                fa, fb = struct.unpack("<f", struct.pack("<I", a))[0], struct.unpack("<f", struct.pack("<I", b))[0]
                if fa > fb:
                    a, b = b, a
                v += [a, b]
            vecs.append(v)
        reqs.append(s.req(vecs))
    p = subprocess.run([T.TVDUMP, "jitrun", "interval"], input="\n".join(reqs) + "\n", capture_output=True, text=True)
    for line in p.stdout.splitlines():
        try:
            r = json.loads(line)
        except Exception:
            continue
        out.setdefault(r["id"], []).append(([int(w, 16) for w in r["vars"].split()], [int(w, 16) for w in r["out"].split()],
                                             r.get("trace"), [int(w, 16) for w in r.get("vm_out", "").split()], r.get("vm_trace")))
    return out


# ---------------------------------------------------------------------------
# C12: Context constructors.  Both the expression as written and the graph the
# Context actually built are evaluated with the full opcode specification.

def eval_graph_spec(enc, lines, prefix, table=None, commute_minmax=False):
    """`table` (shared between the two sides of a comparison) interns terms by their defining text, and the operands of
    the commutative IEEE operations add / mul (one NaN in the FP theory, so exactly commutative) are put in a canonical
    order: an expression and its operand-swapped form then become the *same* term instead of two 24x24-bit multiplier
    circuits whose equivalence a SAT solver may or may not find in time."""
    vals = []

    def define(text):
        if table is None:
            return enc.define(prefix, text)
        if text not in table:
            table[text] = enc.define(prefix, text)
        return table[text]

    for line in lines:
        t = line.split()
        if t[0] == "in":
            vals.append(enc.const("x_" + t[1]))
        elif t[0] == "const":
            vals.append(X.bv(int(t[1], 16), 32))
        elif t[0] == "un":
            vals.append(define(spec_unary(enc, t[1], vals[int(t[2])])))
        elif t[0] == "bin":
            a, b = vals[int(t[2])], vals[int(t[3])]
            if table is not None and (t[1] in ("Add", "Mul") or (commute_minmax and t[1] in ("Min", "Max"))):
                a, b = sorted((a, b), key=str)
            v, _ = spec_binary(enc, t[1], a, b)
            vals.append(define(v))
        else:
            raise X.Unsupported("graph line " + line)
    return vals


def finite(v):
    f = X.fp(v)
    return "(not (or (fp.isNaN %s) (fp.isInfinite %s)))" % (f, f)


def check_construct(rec, solver):
    out = {"id": rec["id"], "status": "unsat", "problems": []}
    if "panic" in rec:
        out["status"] = "fail"
        out["problems"].append("constructor panicked: " + rec["panic"])
        return out
    if not rec.get("dedup", True):
        out["problems"].append("building the same expression twice gave two different nodes")
    enc = Enc2(fp=True, mode="base")
    def encode(commute_minmax):
        e = Enc2(fp=True, mode="base")
        table = {}
        ev_ = eval_graph_spec(e, rec["expr"], "u", table, commute_minmax)
        gv_ = eval_graph_spec(e, rec["graph"], "g", table, commute_minmax)
        want, got = ev_[rec["expr_root"]], gv_[rec["root"]]
        pre_ = X.band(*[finite(v) for v in ev_])
        return e, pre_, "(and %s (not (fp.eq %s %s)))" % (pre_, X.fp(got), X.fp(want))

    enc, pre, goal = encode(False)
    xs = sorted(c for c in enc.consts if c.startswith("x_"))
    res, model = T.query(solver, enc, goal, xs)
    if res == "unknown":
        # The constructors reorder the operands of min / max, whose results then differ at most in the sign of a zero
        # (operands are not NaN under the finiteness premise) -- which the property exempts.  Deciding that through an
        # outer multiplier means proving two different 24x24-bit circuits equivalent; reading min / max as commutative
        # makes both sides the same term.  Used only when the exact query is undecided; counted in the evidence.
        enc, pre, goal = encode(True)
        res, model = T.query(solver, enc, goal, xs, fallback_prelude=T.PRELUDE_FP)
        out["minmax_commuted"] = True
    out["status"] = res
    if res == "sat":
        out["model"] = model
    # non-triviality witness: the finiteness premise is satisfiable
    if res == "unsat":
        r2, _ = T.query(solver, enc, pre)
        out["premise_sat"] = r2 == "sat"
    return out


def work_construct(chunk):
    global _solver2
    if _solver2 is None:
        _solver2 = Solver("z3", timeout_ms=3000)
        _solver2.send(T.PRELUDE_FP)
    t0 = _solver2.time_s
    out = [check_construct(rec, _solver2) for rec in chunk]
    return out, _solver2.time_s - t0, len(chunk)
