"""Which units decide which property."""
from props import ArmsKaniUnit, JitKaniUnit, KaniUnit
from ex_units import JitSmtUnit
from tv_units import AllocTVUnit, FlattenTVUnit, SimplifyTVUnit, BytecodeTVUnit, ConstructTVUnit
from remap_tv import RemapTVUnit
from shapes_tv import ShapesTVUnit

LIBM_STUBS = [
    "f32::sin, f32::cos -> functional, NaN/inf->NaN, range [-1,1] (no monotonicity)",
    "f32::tan -> functional, NaN/inf->NaN, any non-NaN value",
    "f32::asin (up), f32::acos (down), f32::atan (up) -> functional, domain/range, monotone",
    "f32::exp (up), f32::ln (up), f32::sqrt (up) -> functional, special values, monotone",
    "f32::atan2 -> functional, NaN propagation, range by quadrant, exact on the axes, monotone (dominance) inside each closed quadrant",
    "f32::powi(x,2) -> x*x",
]
LIBM_ASSUME = [
    "platform libm satisfies the contract stubs (functional, NaN-propagating, documented range, monotone where stated)",
    "Kani 0.68 / CBMC 6.11 / CaDiCaL and the Rust->goto translation are trusted",
    "CBMC float checks 'NaN on ...' / float overflow are not Rust panics and are filtered out",
]
LATTICE = ("operands of rounded arithmetic kernels range over the lattice {k*2^-2*2^E : |k|<=KMAX} U "
           "{+-0, +-MIN_POSITIVE, +-MAX, +-inf, NaN, +-min denormal}; quick: KMAX<=63,E=0; thorough adds "
           "KMAX=127 and E in {60,120}; values between lattice points are outside the claim")

INTERVAL_FNS = ["fidget_core::types::Interval::{new,abs,square,sin,cos,tan,asin,acos,atan,exp,ln,sqrt,recip,"
                "min_choice,max_choice,and_choice,or_choice,rem_euclid,floor,ceil,round,not,atan2,mix,rand,compare}",
                "<Interval as Add/Sub/Mul/Mul<f32>/Div/Neg/From<f32>>"]

ARM_ASSUME = ["the interpreter's loop and `match` dispatch are not executed symbolically (CBMC needs > 10 min for one pass over the "
              "real loop); each arm's verbatim source text is compiled into a harness with a fixed 3-slot environment instead"]
ARM_BOUNDS = {"slots": "out/lhs/rhs/mem symbolic in 0..3 (every aliasing form)", "lanes": "bulk evaluators: 2 lanes, symbolic lane checked",
              "width": "all 2^32 bit patterns per operand (gradient arms: lattice operands, finite results)"}


def arms(prefix, fn):
    return ArmsKaniUnit(prefix, [fn + " (every match arm, source text extracted by lib/armgen.py)"], ARM_BOUNDS,
                        LIBM_ASSUME + ARM_ASSUME, LIBM_STUBS)


EX_ASSUME = ["objdump's x86-64 decoder, the lifter and the x86rt machine model are trusted; they are validated on every run by executing "
             "the lifted code natively on garbage register files against the actual JIT function on this CPU",
             "out-of-line callbacks are identified by evaluating them natively and replaced by the identified Rust function plus the SysV "
             "clobber model (all caller-saved GPRs, all vector registers and flags become arbitrary)",
             "x86-64 only (aarch64 code is not compiled on this machine)"]

TF_BOUNDS = {"width": "matrix entries, positions / boxes / derivative seeds symbolic on the lattice k/4 (|k|<=8; boxes quick |k|<=3), homogeneous "
                      "coordinate a power of two: real arithmetic is exact in f32 there, so the assertions are exact and independent of operation order",
             "matrices": "A_i: one symbolic upper row + symbolic w; B: projective bottom row (gradients: one linear entry + m33 per harness)"}


def tf_unit(kind, fn):
    return KaniUnit("kernels", "c14_", [fn], TF_BOUNDS, LIBM_ASSUME[1:], [], quick_timeout=1200, thorough_timeout=3600, contains=kind)


PROPS = {
    "C02": {
        "level": "model_checking",
        "units": [JitSmtUnit(["point", "fslice"])],
    },
    "C12": {
        "level": "translation_validation",
        "units": [ConstructTVUnit()],
    },
    "C18": {
        "level": "model_checking",
        "units": [KaniUnit("gui", "c18_", ["fidget_gui::View3::{begin_rotate, rotate, zoom}", "fidget_gui::View2::zoom", "RotateHandle::{yaw, pitch}"],
                           {"width": "all 2^32 bit patterns for centre, scale, yaw, pitch, zoom factor; cursor positions in [-2, 2]",
                            "outside": "zoom/drag about a cursor position and the world_to_model matrix identity (nalgebra matrix code does not finish "
                                       "under CBMC within 15 min per harness; the harnesses are kept as c18_x_* in kani/gui but not run)"},
                           LIBM_ASSUME[1:], [])],
    },
    "C10": {
        "level": "translation_validation",
        "units": [SimplifyTVUnit(reuse_only=True),
                  arms("c10_", "TracingVmEval::resize_slots / BulkVmEval::resize_slots (verbatim bodies, from an arbitrary earlier state of the evaluator object)")],
    },
    "C13": {
        "level": "translation_validation",
        "units": [RemapTVUnit()],
    },
    "C16": {
        "level": "translation_validation",
        "units": [ShapesTVUnit()],
    },
    "C14": {
        "level": "model_checking",
        "units": [KaniUnit("kernels", "c14_", ["<f32 as fidget_core::shape::Transformable>::transform", "<Interval as Transformable>::transform",
                                               "<Grad as Transformable>::transform"],
                           {"width": "all 16 matrix entries (incl. the projective row), positions / boxes / derivative seeds symbolic on the lattice k/4, "
                                     "|k|<=8 (positions of the point harness: |k|<=16), homogeneous coordinate w in {+-0.5, +-1, +-2, +-4}: real "
                                     "arithmetic is exact in f32 there, so the assertions are exact and independent of operation order", "unwind": 8},
                           LIBM_ASSUME[1:], [], quick_timeout=1200, thorough_timeout=3600)],
    },
    "C15": {
        "level": "translation_validation",
        "units": [BytecodeTVUnit()],
    },
    "C04": {
        "level": "translation_validation",
        "units": [SimplifyTVUnit(),
                  arms("c20_", "VmPointEval::eval / VmIntervalEval::eval choice clauses (the trace producers)")],
    },
    "C01": {
        "level": "translation_validation",
        "units": [AllocTVUnit(), FlattenTVUnit(), arms("c01_", "VmPointEval::eval / VmFloatSliceEval::eval")],
    },
    "C11": {
        "level": "model_checking",
        "units": [
            KaniUnit("kernels", "c11_", INTERVAL_FNS,
                     {"width": "all 2^32 bit patterns per endpoint for selection-shaped kernels and libm-backed kernels",
                      "lattice": LATTICE, "unwind": 8},
                     LIBM_ASSUME, LIBM_STUBS),
        ],
    },
    "C03": {
        "level": "model_checking",
        "units": [
            arms("c03_", "VmIntervalEval::eval"),
            JitSmtUnit(["interval"]),
            tf_unit("interval", "<Interval as fidget_core::shape::Transformable>::transform (the box with a transform matrix applied)"),
            KaniUnit("kernels", "c03_", INTERVAL_FNS + ["fidget_core::context::{UnaryOpcode,BinaryOpcode}::eval"],
                     {"width": "all 2^32 bit patterns per endpoint/point for selection-shaped and monotone-libm kernels",
                      "lattice": LATTICE, "unwind": 8},
                     LIBM_ASSUME, LIBM_STUBS),
        ],
    },
    "C20": {
        "level": "model_checking",
        "units": [
            arms("c20_", "VmPointEval::eval / VmIntervalEval::eval choice clauses (value, recorded choice, simplify flag, one slot consumed)"),
            JitSmtUnit(["point", "interval"], name_filter=("Min", "Max", "And", "Or", "choices")),
            KaniUnit("kernels", "c20_", ["<f32 as FloatExt>::{min_choice,max_choice,and_choice,or_choice}",
                                         "Interval::{min_choice,max_choice,and_choice,or_choice}",
                                         "Grad::{min,max,and,or}", "Choice::bitor_assign"],
                     {"width": "all 2^32 bit patterns per operand / endpoint / derivative lane", "unwind": 8},
                     LIBM_ASSUME[1:], []),
        ],
    },
    "C05": {
        "level": "model_checking",
        "units": [
            arms("c05_", "VmGradSliceEval::eval"),
            tf_unit("grad", "<Grad as fidget_core::shape::Transformable>::transform (derivative lanes through the transform, arbitrary seeds)"),
            KaniUnit("kernels", "c05_", ["fidget_core::types::Grad::*", "<Grad as Add/Sub/Mul/Mul<f32>/Div/Neg>",
                                         "fidget_core::context::{UnaryOpcode,BinaryOpcode}::eval"],
                     {"width": "all 2^32 bit patterns per lane for value-lane and selection obligations",
                      "lattice": LATTICE, "unwind": 8},
                     LIBM_ASSUME, LIBM_STUBS),
        ],
    },
}
