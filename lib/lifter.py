"""E-X lifter: machine code bytes emitted by the real fidget-jit assemblers ->
objdump disassembly -> Rust functions over the x86rt machine model."""
import json
import os
import re
import subprocess
import tempfile

REG64 = ["rax", "rcx", "rdx", "rbx", "rsp", "rbp", "rsi", "rdi"] + ["r%d" % i for i in range(8, 16)]
REG32 = ["eax", "ecx", "edx", "ebx", "esp", "ebp", "esi", "edi"] + ["r%dd" % i for i in range(8, 16)]
REG8 = ["al", "cl", "dl", "bl", "spl", "bpl", "sil", "dil"] + ["r%db" % i for i in range(8, 16)]
SIZES = {"BYTE": 1, "WORD": 2, "DWORD": 4, "QWORD": 8, "XMMWORD": 16, "YMMWORD": 32}
JCC = {"ja": "cc_a", "jb": "cc_b", "je": "cc_e", "jz": "cc_e", "jne": "cc_ne", "jnz": "cc_ne", "jp": "cc_p", "jnp": "cc_np"}

# mnemonics implemented by x86rt (method name may depend on operand count)
KNOWN = {
    "mov", "movabs", "add", "sub", "cmp", "test", "and", "or", "xor", "inc", "shr", "shrx", "imul", "sete", "setnp",
    "push", "pop", "ret", "vaddss", "vsubss", "vmulss", "vdivss", "vsqrtss", "vminss", "vmaxss", "vcmpeqss",
    "vcmpltss", "vcmpgtss", "addss", "mulss", "divss", "sqrtss", "vaddps", "vsubps", "vmulps", "vdivps", "vminps",
    "vmaxps", "vandps", "vandpd", "vpand", "vorps", "vorpd", "vpor", "vxorps", "vxorpd", "vpxor", "vcmpeqps",
    "vcmpltps", "vcmpgtps", "vcmpunordps", "vpaddd", "vpmulld", "vpcmpeqd", "vpcmpeqw", "vpsrlvd", "vsqrtps",
    "pcmpeqd", "pcmpeqw", "pxor", "vpslld", "vpsrld", "pslld", "psrld", "vpsllq", "vroundss", "vroundps", "vcomiss",
    "vucomiss", "comiss", "vmovss", "vmovsd", "movss", "movaps", "vmovaps", "vmovups", "movd", "vmovd", "movq",
    "vmovq", "vbroadcastss", "vpbroadcastd", "vpshufd", "pshufd", "vunpcklps", "vpunpckldq", "vpunpcklqdq",
    "vpinsrd", "vzeroupper",
}


class LiftError(Exception):
    pass


def disassemble(code_hex):
    with tempfile.NamedTemporaryFile(suffix=".bin", delete=False) as f:
        f.write(bytes.fromhex(code_hex))
        path = f.name
    try:
        out = subprocess.run(["objdump", "-D", "-b", "binary", "-mi386:x86-64", "-Mintel", path],
                             capture_output=True, text=True).stdout
    finally:
        os.unlink(path)
    ins = []
    for line in out.splitlines():
        m = re.match(r"^\s*([0-9a-f]+):\t([0-9a-f ]+)\t(.*)$", line)
        if not m:
            continue
        text = m.group(3).strip()
        if not text:
            continue  # continuation line of a long encoding
        text = re.sub(r"^rex(\.\w+)?\s+", "", text)
        ins.append((int(m.group(1), 16), text))
    return ins


def parse_int(s):
    s = s.strip()
    neg = s.startswith("-")
    if neg:
        s = s[1:]
    v = int(s, 16) if s.startswith("0x") else int(s)
    return -v if neg else v


def parse_operand(s):
    s = s.strip()
    if s in REG64:
        return "R64(%d)" % REG64.index(s)
    if s in REG32:
        return "R32(%d)" % REG32.index(s)
    if s in REG8:
        return "R8(%d)" % REG8.index(s)
    m = re.match(r"^xmm(\d+)$", s)
    if m:
        return "X(%s)" % m.group(1)
    m = re.match(r"^ymm(\d+)$", s)
    if m:
        return "Y(%s)" % m.group(1)
    m = re.match(r"^(\w+) PTR \[(.*)\]$", s)
    if m:
        size = SIZES[m.group(1)]
        base, index, scale, disp = 16, 16, 1, 0
        for tm in re.finditer(r"([+-]?)\s*([^+-]+)", m.group(2)):
            sign, term = tm.group(1), tm.group(2).strip()
            if "*" in term:
                r, sc = term.split("*")
                index, scale = REG64.index(r), int(sc)
            elif term in REG64:
                if base == 16:
                    base = REG64.index(term)
                else:
                    index = REG64.index(term)
            else:
                v = parse_int(term)
                disp += -v if sign == "-" else v
        return "M(%d, %d, %d, %d, %d)" % (base, index, scale, disp, size)
    try:
        v = parse_int(s)
        if v >= 1 << 63:
            v -= 1 << 64
        return "I(%d)" % v
    except ValueError:
        raise LiftError("cannot parse operand %r" % s)


def split_operands(s):
    out, depth, cur = [], 0, ""
    for ch in s:
        if ch == "[":
            depth += 1
        elif ch == "]":
            depth -= 1
        if ch == "," and depth == 0:
            out.append(cur)
            cur = ""
        else:
            cur += ch
    if cur.strip():
        out.append(cur)
    return out


def lift(name, code_hex, calls, kind):
    """Returns Rust source of `pub fn <name>(m: &mut M)`.
    calls: list of 'offset:addr:identified-name' from tvdump."""
    ins = disassemble(code_hex)
    if not ins:
        raise LiftError("empty disassembly")
    call_names = {}
    for c in calls:
        off, addr, nm = c.split(":")
        call_names[int(addr, 16)] = nm
        if nm.startswith("un"):
            raise LiftError("callback at %s could not be identified" % addr)
    offsets = [o for o, _ in ins]
    # block leaders
    leaders = {offsets[0]}
    for i, (off, text) in enumerate(ins):
        mn = text.split()[0]
        if mn in JCC or mn == "jmp":
            tgt = parse_int(text.split()[1])
            if tgt not in offsets:
                raise LiftError("jump into the middle of an instruction: %s" % text)
            leaders.add(tgt)
            if i + 1 < len(ins):
                leaders.add(ins[i + 1][0])
        if mn == "ret" and i + 1 < len(ins):
            leaders.add(ins[i + 1][0])
    order = sorted(leaders)
    bid = {off: i for i, off in enumerate(order)}
    blocks = [[] for _ in order]
    cur = None
    pending_abs = {}  # register -> absolute value (for call targets)
    for i, (off, text) in enumerate(ins):
        if off in bid:
            cur = bid[off]
        parts = text.split(None, 1)
        mn = parts[0]
        ops = split_operands(parts[1]) if len(parts) > 1 else []
        nxt = bid.get(ins[i + 1][0]) if i + 1 < len(ins) else None
        B = blocks[cur]
        if mn in JCC:
            tgt = bid[parse_int(ops[0])]
            B.append("pc = if m.%s() { %d } else { %d }; continue;" % (JCC[mn], tgt, cur + 1))
        elif mn == "jmp":
            B.append("pc = %d; continue;" % bid[parse_int(ops[0])])
        elif mn == "ret":
            B.append("m.ret(); break;")
        elif mn == "call":
            r = ops[0].strip()
            if r not in pending_abs or pending_abs[r] not in call_names:
                raise LiftError("call through %s with unknown target" % r)
            B.append("crate::calls::call_%s(m, crate::calls::F_%s);" % (kind, call_names[pending_abs[r]].upper()))
        else:
            if mn not in KNOWN:
                raise LiftError("mnemonic %s is not modelled: %s" % (mn, text))
            o = [parse_operand(x) for x in ops]
            meth = mn
            if mn in ("vmovss", "vmovsd") and len(o) == 3:
                meth = mn + "3"
            if mn == "imul":
                if len(o) != 3:
                    raise LiftError("imul form: " + text)
                meth = "imul3"
            if mn == "movabs":
                pending_abs[ops[0].strip()] = parse_int(ops[1]) & ((1 << 64) - 1)
            B.append("m.%s(%s);" % (meth, ", ".join(o)))
        if nxt is not None and nxt != cur and mn not in JCC and mn not in ("jmp", "ret"):
            if ins[i + 1][0] in bid:
                B.append("pc = %d; continue;" % nxt)
    # structured emission: forward jumps only need one pass over the blocks in
    # address order ("if pc == i { ... }"); a single backward jump (the bulk
    # loop) becomes a Rust loop over the blocks it spans
    back = None
    for i, B in enumerate(blocks):
        for line in B:
            m = re.match(r"pc = (?:if .* \{ (\d+) \} else \{ (\d+) \}|(\d+)); continue;", line)
            if m:
                for t in m.groups():
                    if t is not None and int(t) <= i:
                        if back is not None and back != (int(t), i):
                            raise LiftError("more than one backward jump")
                        back = (int(t), i)
    src = ["#[allow(unused_assignments, unreachable_code)]", "pub fn %s(m: &mut M) {" % name, "    let mut pc: usize = 0;"]

    def emit_block(i, indent):
        src.append("%sif pc == %d {" % (indent, i))
        for line in blocks[i]:
            line = line.replace(" continue;", "").replace("m.ret(); break;", "m.ret(); pc = usize::MAX;")
            src.append("%s    %s" % (indent, line))
        src.append("%s}" % indent)

    i = 0
    while i < len(blocks):
        if back is not None and i == back[0]:
            src.append("    loop {")
            for j in range(back[0], back[1] + 1):
                emit_block(j, "        ")
            src.append("        if pc != %d { break; }" % back[0])
            src.append("    }")
            i = back[1] + 1
        else:
            emit_block(i, "    ")
            i += 1
    src.append("}")
    return "\n".join(src), len(blocks), len(ins)
