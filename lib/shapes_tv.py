"""C16 SHAPES-TV: every shape / transform / CSG combinator of the fidget-shapes
library is built through its public struct and `Tree::from` (tvdump remap, `sh`
statements), imported into a Context, read back, and compared by z3 over the
reals with a closed-form specification written from the documentation:

  * primitives: negative exactly inside the solid (sign obligation),
  * transforms: T(s)(p) = s(T^-1 p) with s an uninterpreted target tree (exact
    value obligation for dyadic parameters; a linear target and a stated
    tolerance where the real code has to round: rotations, normalised axes),
  * CSG: inside exactly according to union / intersection / difference /
    complement of the arguments' insides (sign obligation, arguments opaque),
  * named axes and planes through the shapes that take them.

The specification is an expression tree with two interpreters: SMT (reals) for
the solver and floats for the native confirmation of a counterexample.
"""
import itertools
import json
import math
import multiprocessing as mp
import time
from fractions import Fraction

import remap_tv as R
import tv_engine as T
from common import Finding
from props import UnitResult
from smt import Solver

NPROC = 14
EPS = Fraction(1, 50000)  # tolerance of `approx` obligations, relative to 1+|x|+|y|+|z|+|v0|
BIG = Fraction(2) ** 100  # stands for +inf in sign obligations


class NoValue(Exception):
    pass


def fr(v):
    return Fraction(v)


# ---------------------------------------------------------------------------
# specification: expression trees


def C(v):
    return ("c", Fraction(v))


def add(a, b):
    return ("+", a, b)


def sub(a, b):
    return ("-", a, b)


def mul(a, b):
    return ("*", a, b)


def div(a, b):
    return ("/", a, b)


def sq(a):
    return ("*", a, a)


def lt(a, b):
    return ("<", a, b)


def AND(*xs):
    return ("and",) + tuple(xs)


def OR(*xs):
    return ("or",) + tuple(xs)


UN_EXACT = {"Neg": lambda a: ("neg", a), "Abs": lambda a: ("abs", a), "Square": sq, "Recip": lambda a: div(C(1), a),
            "Sqrt": lambda a: ("sqrt", a)}
BIN_EXACT = {"Add": add, "Sub": sub, "Mul": mul, "Div": div, "Min": lambda a, b: ("min", a, b), "Max": lambda a, b: ("max", a, b),
             "Mod": lambda a, b: ("mod", a, b)}


def dot3(a, p):
    return add(add(mul(C(a[0]), p[0]), mul(C(a[1]), p[1])), mul(C(a[2]), p[2]))


def rot_matrix(axis, deg):
    """Rodrigues; exact for multiples of 90 degrees about a coordinate axis."""
    n = math.sqrt(sum(float(a) ** 2 for a in axis))
    k = [Fraction(a) / Fraction(n) if n != 1.0 else Fraction(a) for a in axis]
    d = deg % 360
    exact = {0: (1, 0), 90: (0, 1), 180: (-1, 0), 270: (0, -1)}
    if d in exact:
        c, s = map(Fraction, exact[d])
    else:
        c, s = Fraction(math.cos(math.radians(deg))), Fraction(math.sin(math.radians(deg)))
    kx, ky, kz = k
    t = 1 - c
    return [[c + kx * kx * t, kx * ky * t - kz * s, kx * kz * t + ky * s],
            [ky * kx * t + kz * s, c + ky * ky * t, ky * kz * t - kx * s],
            [kz * kx * t - ky * s, kz * ky * t + kx * s, c + kz * kz * t]]


def affine_apply(m, p):
    return tuple(dot3(m[r], p) for r in range(3))


def unit(axis):
    n = math.sqrt(sum(float(a) ** 2 for a in axis))
    return [Fraction(a) / Fraction(n) for a in axis] if abs(n - 1.0) > 0 else [Fraction(a) for a in axis]


AXES = {"X": (1, 0, 0), "Y": (0, 1, 0), "Z": (0, 0, 1)}
PLANE_NORMAL = {"XY": (0, 0, 1), "YZ": (1, 0, 0), "ZX": (0, 1, 0)}


def sel_axis(sel, f):
    if sel in AXES:
        return AXES[sel], f
    return tuple(f[:3]), f[3:]


def reflect(p, a, off):
    """p - 2 (a.p - off) a, |a| = 1"""
    d = sub(dot3(a, p), C(off))
    return tuple(sub(p[i], mul(C(2 * Fraction(a[i])), d)) for i in range(3))


class Spec:
    """The script read per the documentation. `alt` selects between accepted
    readings where the documentation is ambiguous (see DESIGN.md)."""

    def __init__(self, script, alt=0):
        self.st = [s.split() for s in script.split(";")]
        self.alt = alt
        self.memo = {}

    # the inverse map T^-1 of a transform statement
    def inverse_map(self, name, sel, f, p):
        x, y, z = p
        if name == "Move":
            return (sub(x, C(f[0])), sub(y, C(f[1])), sub(z, C(f[2])))
        if name == "Scale":
            return (div(x, C(f[0])), div(y, C(f[1])), div(z, C(f[2])))
        if name == "ScaleUniform":
            return (div(x, C(f[0])), div(y, C(f[0])), div(z, C(f[0])))
        if name in ("ReflectX", "ReflectY", "ReflectZ"):
            i = "XYZ".index(name[-1])
            q = list(p)
            q[i] = sub(C(2 * f[0]), p[i])
            return tuple(q)
        if name == "Reflect":
            a, rest = sel_axis(sel, f)
            return reflect(p, unit(a), rest[0])
        if name == "ReflectPlane":
            return reflect(p, PLANE_NORMAL[sel], 0)
        if name == "ReflectXY":
            # about the line X = Y (offset 0 only: the meaning of the offset is not documented)
            assert f[0] == 0
            return (y, x, z)
        if name in ("Rotate", "RotateX", "RotateY", "RotateZ"):
            if name == "Rotate":
                a, rest = sel_axis(sel, f)
            else:
                a, rest = AXES[name[-1]], f
            ang, c = rest[0], rest[1:4]
            m = rot_matrix(a, -float(ang))  # T^-1 = rotate by -angle about the axis through c
            q = tuple(sub(p[i], C(c[i])) for i in range(3))
            r = affine_apply(m, q)
            return tuple(add(r[i], C(c[i])) for i in range(3))
        if name == "RevolveY":
            # distance from the axis {x = c, z = 0} parallel to Y, measured from c
            c = f[0] if self.alt == 0 else -f[0]
            r = ("sqrt", add(sq(sub(x, C(c))), sq(z)))
            return (add(C(c), r), y, z)
        if name == "RepeatX":
            # the cell [offset - radius, offset + radius) repeated with period 2*radius: x is taken to the cell by the
            # (euclidean) modulo opcode, whose meaning is the interpreter's (C01/C03 harnesses), not re-derived here
            lo = f[1] - f[0]
            return (add(("mod", sub(x, C(lo)), C(2 * f[0])), C(lo)), y, z)
        return None

    def val(self, i, frame):
        key = ("v", i, frame)
        if key in self.memo:
            return self.memo[key]
        t = self.st[i]
        k = t[0]
        if k in "xyz":
            v = frame["xyz".index(k)]
        elif k == "v":
            v = ("var", "p_v" + t[1])
        elif k == "c":
            v = C(R.bits_frac(int(t[1], 16)))
        elif k == "u":
            a = self.val(int(t[2]), frame)
            v = UN_EXACT[t[1]](a) if t[1] in UN_EXACT else ("uf", t[1], a)
        elif k == "b":
            a, b = self.val(int(t[2]), frame), self.val(int(t[3]), frame)
            v = BIN_EXACT[t[1]](a, b) if t[1] in BIN_EXACT else ("uf", t[1], a, b)
        elif k == "rx":
            g = tuple(self.val(int(t[j]), frame) for j in (2, 3, 4))
            v = self.val(int(t[1]), g)
        elif k == "ra":
            m = [R.bits_frac(int(w, 16)) for w in t[2:14]]
            g = tuple(add(dot3(m[4 * r:4 * r + 3], frame), C(m[4 * r + 3])) for r in range(3))
            v = self.val(int(t[1]), g)
        elif k == "sh":
            name, sel, trees, f = self.shape_args(t)
            g = self.inverse_map(name, sel, f, frame)
            if g is not None:
                v = self.val(trees[0], g)
            elif name == "Plane":
                if sel in PLANE_NORMAL:
                    v = dot3(PLANE_NORMAL[sel], frame)
                    if self.alt:  # planes are documented as unoriented
                        v = ("neg", v)
                else:
                    a, rest = sel_axis(sel, f)
                    v = sub(dot3(unit(a), frame), C(rest[0]))
            else:
                raise NoValue(name)
        else:
            raise ValueError(t)
        self.memo[key] = v
        return v

    @staticmethod
    def shape_args(t):
        full = t[1]
        name, _, sel = full.partition("@")
        nt = int(t[2])
        trees = [int(w) for w in t[3:3 + nt]]
        f = [R.bits_frac(int(w, 16)) for w in t[3 + nt:]]
        return name, sel, trees, f

    def sgn(self, i, frame):
        """(value < 0, value > 0) as boolean expressions"""
        key = ("s", i, frame)
        if key in self.memo:
            return self.memo[key]
        t = self.st[i]
        out = None
        if t[0] == "sh":
            name, sel, trees, f = self.shape_args(t)
            x, y, z = frame
            g = self.inverse_map(name, sel, f, frame)
            if g is not None:
                out = self.sgn(trees[0], g)
            elif name == "Circle":
                d2, r2 = add(sq(sub(x, C(f[0]))), sq(sub(y, C(f[1])))), C(f[2] * f[2])
                out = (lt(d2, r2), lt(r2, d2))
            elif name == "Sphere":
                d2 = add(add(sq(sub(x, C(f[0]))), sq(sub(y, C(f[1])))), sq(sub(z, C(f[2]))))
                r2 = C(f[3] * f[3])
                out = (lt(d2, r2), lt(r2, d2))
            elif name == "Rectangle":
                ins = [lt(C(f[0]), x), lt(x, C(f[2])), lt(C(f[1]), y), lt(y, C(f[3]))]
                outs = [lt(x, C(f[0])), lt(C(f[2]), x), lt(y, C(f[1])), lt(C(f[3]), y)]
                out = (AND(*ins), OR(*outs))
            elif name == "Box":
                ins, outs = [], []
                for j, c in enumerate(frame):
                    ins += [lt(C(f[j]), c), lt(c, C(f[3 + j]))]
                    outs += [lt(c, C(f[j])), lt(C(f[3 + j]), c)]
                out = (AND(*ins), OR(*outs))
            elif name == "Union":
                ss = [self.sgn(j, frame) for j in trees]
                out = (OR(*[s[0] for s in ss]), AND(*[s[1] for s in ss])) if ss else (("false",), ("true",))
            elif name == "Intersection":
                ss = [self.sgn(j, frame) for j in trees]
                out = (AND(*[s[0] for s in ss]), OR(*[s[1] for s in ss])) if ss else (("true",), ("false",))
            elif name == "Inverse":
                s = self.sgn(trees[0], frame)
                out = (s[1], s[0])
            elif name == "Difference":
                a, b = self.sgn(trees[0], frame), self.sgn(trees[1], frame)
                out = (AND(a[0], b[1]), OR(a[1], b[0]))
            elif name == "ExtrudeZ":
                s = self.sgn(trees[0], (x, y, C(0)))
                out = (AND(s[0], lt(C(f[0]), z), lt(z, C(f[1]))), OR(s[1], lt(z, C(f[0])), lt(C(f[1]), z)))
            elif name == "LoftZ":
                a, b = self.val(trees[0], (x, y, C(0))), self.val(trees[1], (x, y, C(0)))
                lo, hi = C(f[0]), C(f[1])
                v = div(add(mul(sub(z, lo), b), mul(sub(hi, z), a)), sub(hi, lo))
                out = (AND(lt(v, C(0)), lt(lo, z), lt(z, hi)), OR(lt(C(0), v), lt(z, lo), lt(hi, z)))
            elif name == "Blend":
                raise NoValue("Blend has its own obligation")
        if out is None:
            v = self.val(i, frame)
            out = (lt(v, C(0)), lt(C(0), v))
        self.memo[key] = out
        return out


# ---------------------------------------------------------------------------
# interpreters


class ToSmt:
    def __init__(self, enc):
        self.enc = enc
        self.side = []  # constraints that define auxiliary variables (always satisfiable)
        self.memo = {}
        self.n = 0

    def fresh(self, sort):
        self.n += 1
        nm = "aux%d" % self.n
        self.enc.lines.append("(declare-const %s %s)" % (nm, sort))
        return nm

    def v(self, e):
        if e in self.memo:
            return self.memo[e]
        k = e[0]
        enc = self.enc
        if k == "c":
            r = R.rat(e[1])
        elif k == "var":
            r = enc.var(e[1])
        elif k in "+-*/":
            r = enc.define("(%s %s %s)" % (k, self.v(e[1]), self.v(e[2])))
        elif k == "neg":
            r = enc.un("Neg", self.v(e[1]))
        elif k == "abs":
            r = enc.un("Abs", self.v(e[1]))
        elif k == "min":
            r = enc.bin("Min", self.v(e[1]), self.v(e[2]))
        elif k == "max":
            r = enc.bin("Max", self.v(e[1]), self.v(e[2]))
        elif k == "sqrt":
            r = enc.un("Sqrt", self.v(e[1]))
        elif k == "mod":
            r = enc.bin("Mod", self.v(e[1]), self.v(e[2]))
        elif k == "uf":
            r = enc.un(e[1], self.v(e[2])) if len(e) == 3 else enc.bin(e[1], self.v(e[2]), self.v(e[3]))
        elif k == "repeat":
            x, rad, off = self.v(e[1]), self.v(e[2]), self.v(e[3])
            r, kk = self.fresh("Real"), self.fresh("Int")
            self.side.append("(= %s (- %s (* 2.0 %s (to_real %s))))" % (r, x, rad, kk))
            self.side.append("(<= (- %s %s) %s)" % (off, rad, r))
            self.side.append("(< %s (+ %s %s))" % (r, off, rad))
        else:
            raise ValueError(e)
        self.memo[e] = r
        return r

    def b(self, e):
        k = e[0]
        if k == "<":
            return "(< %s %s)" % (self.v(e[1]), self.v(e[2]))
        if k in ("and", "or"):
            if len(e) == 2:
                return self.b(e[1])
            return "(%s %s)" % (k, " ".join(self.b(x) for x in e[1:]))
        if k in ("true", "false"):
            return k
        raise ValueError(e)


class AxEnc(R.REnc):
    """REnc that remembers Sqrt / Mod applications so that their defining
    axioms can be asserted (sqrt: s>=0, s*s=a for a>=0; mod b>0: 0<=m<b, a=m+k*b)."""

    def __init__(self):
        R.REnc.__init__(self)
        self.apps = []

    def un(self, op, a):
        r = R.REnc.un(self, op, a)
        if op == "Sqrt":
            self.apps.append(("sqrt", a, r))
        return r

    def bin(self, op, a, b):
        r = R.REnc.bin(self, op, a, b)
        if op == "Mod":
            self.apps.append(("mod", a, b, r))
        return r

    def axioms(self):
        out = []
        for i, ap in enumerate(self.apps):
            if ap[0] == "sqrt":
                out.append("(=> (>= %s 0.0) (and (>= %s 0.0) (= (* %s %s) %s)))" % (ap[1], ap[2], ap[2], ap[2], ap[1]))
            else:
                # range of the euclidean modulo only (integer quotients make z3 diverge and are not needed)
                out.append("(=> (> %s 0.0) (and (<= 0.0 %s) (< %s %s)))" % (ap[2], ap[3], ap[3], ap[2]))
        return out


def to_float(e, env):
    k = e[0]
    if k == "c":
        return float(e[1])
    if k == "var":
        return env.get(e[1], 0.0)
    a = [to_float(x, env) if isinstance(x, tuple) else x for x in e[1:]]
    try:
        if k == "+":
            return a[0] + a[1]
        if k == "-":
            return a[0] - a[1]
        if k == "*":
            return a[0] * a[1]
        if k == "/":
            return a[0] / a[1]
        if k == "neg":
            return -a[0]
        if k == "abs":
            return abs(a[0])
        if k == "min":
            return min(a)
        if k == "max":
            return max(a)
        if k == "sqrt":
            return math.sqrt(a[0])
        if k == "mod":
            return a[0] % a[1] if a[1] > 0 else float("nan")
        if k == "repeat":
            x, rad, off = a
            return (x - (off - rad)) % (2 * rad) + (off - rad)
        if k == "uf":
            fn = {"Sin": math.sin, "Cos": math.cos, "Exp": math.exp, "Ln": math.log, "Floor": math.floor}
            if len(a) == 2:
                return fn[a[0]](a[1])
            if a[0] == "Atan":
                return math.atan2(a[1], a[2])
    except (ValueError, ZeroDivisionError, OverflowError):
        return float("nan")
    raise ValueError(e)


def to_bool(e, env):
    k = e[0]
    if k == "<":
        return to_float(e[1], env) < to_float(e[2], env)
    if k == "and":
        return all(to_bool(x, env) for x in e[1:])
    if k == "or":
        return any(to_bool(x, env) for x in e[1:])
    return k == "true"


# ---------------------------------------------------------------------------
# scenarios


def sh(s, name, trees=(), floats=()):
    return s.add("sh", name, len(trees), *(list(trees) + ["0x%08x" % R.f32bits(float(v)) for v in floats]))


def target(s, name):
    if name == "uf2":  # 2D: sqrt(x) + 2 sin(y)
        return s.b("Add", s.u("Sqrt", s.leaf("x")), s.b("Mul", s.u("Sin", s.leaf("y")), s.c(2)))
    if name == "lin2":  # 2D: x + 2y + 8 v0
        return s.b("Add", s.b("Add", s.leaf("x"), s.b("Mul", s.leaf("y"), s.c(2))), s.b("Mul", s.leaf("v 0"), s.c(8)))
    if name == "e":  # exp(z) - cos(x) * y
        return s.b("Sub", s.u("Exp", s.leaf("z")), s.b("Mul", s.u("Cos", s.leaf("x")), s.leaf("y")))
    return R.target(s, name)


# transforms with parameters whose f32 arithmetic is exact
EXACT_TF = [
    ("Move", (1, 2, -3)), ("Move", (0.5, 0, 0)), ("Scale", (2, 0.5, 4)), ("ScaleUniform", (2,)), ("ScaleUniform", (0.25,)),
    ("ReflectX", (0,)), ("ReflectX", (1.5,)), ("ReflectY", (-0.5,)), ("ReflectZ", (2,)),
    ("Reflect@X", (0.5,)), ("Reflect@Y", (0,)), ("Reflect@Z", (-1,)), ("Reflect@V", (0, 0, 2, 1)),
    ("ReflectPlane@XY", ()), ("ReflectPlane@YZ", ()), ("ReflectPlane@ZX", ()),
    ("RepeatX", (1, 0)), ("RepeatX", (2, 0.5)),
    ("Rotate@Z", (0, 1, 2, 3)),
]
# transforms whose matrices round in f32: linear target + tolerance
APPROX_TF = [("Rotate@%s" % a, (ang,) + c) for a in "XYZ" for ang in (90, -90, 180, 45, 30) for c in ((0, 0, 0), (1, 2, -0.5))] + \
            [("Rotate%s" % a, (ang,) + c) for a in "XYZ" for ang in (90, -30) for c in ((0, 0, 0), (-1, 0.5, 2))] + \
            [("Rotate@V", (3, 4, 0, ang, 0.5, 0, 1)) for ang in (90, 60)] + \
            [("Rotate@V", (1, 1, 1, 120, 0, 0, 0)), ("ReflectXY", (0,)), ("Reflect@V", (3, 4, 0, 0.5)), ("Reflect@V", (1, -1, 0, 0))] + \
            [("Rotate@V", ax + (ang, 0.5, -1, 2)) for ax in ((1, 2, 2), (2, -3, 6), (0, 1, 1), (-4, 0, 3)) for ang in (90, 30, -45, 180)] + \
            [("Reflect@V", (1, 2, 2, 0.75)), ("Reflect@V", (2, -3, 6, -1))]
PRIMS = [("Circle", (0.5, -1, 2)), ("Circle", (0, 0, 1)), ("Rectangle", (-1, 0.5, 2, 3)), ("Sphere", (1, -2, 0.5, 1.5)),
         ("Sphere", (0, 0, 0, 1)), ("Box", (-1, -2, 0, 1, 0.5, 3))]


def scenarios(tier):
    """(name, script, kind, alts)  kind in value | approx | sign | blend"""
    out = []

    def emit(name, s, kind, alts=1):
        out.append((name, s.text(), kind, alts))

    def app(s, t, tf):
        return sh(s, tf[0], [t], tf[1])

    def lbl(tf):
        return "%s(%s)" % (tf[0], ",".join(str(v) for v in tf[1]))

    # 1. primitives: negative exactly inside
    for p in PRIMS:
        s = R.Script()
        sh(s, p[0], (), p[1])
        emit("prim:" + lbl(p), s, "sign")
        for tf in (("Move", (1, 2, -3)), ("Scale", (2, 0.5, 4)), ("ReflectX", (1.5,)), ("ReflectPlane@XY", ())):
            s = R.Script()
            app(s, sh(s, p[0], (), p[1]), tf)
            emit("prim:%s.%s" % (lbl(p), lbl(tf)), s, "sign")
    # 2. single transforms and ordered pairs, exact
    for tg in ("uf", "mm", "var") if tier == "quick" else ("uf", "mm", "var", "sh", "e"):
        for tf in EXACT_TF:
            s = R.Script()
            app(s, target(s, tg), tf)
            emit("tf:%s:%s" % (tg, lbl(tf)), s, "value")
    pair_tf = EXACT_TF if tier == "thorough" else [EXACT_TF[i] for i in (0, 2, 3, 6, 9, 12, 13, 17, 18)]
    for tg in ("uf", "mm"):
        for a, b in itertools.product(pair_tf, repeat=2):
            s = R.Script()
            app(s, app(s, target(s, tg), a), b)
            emit("tf2:%s:%s.%s" % (tg, lbl(a), lbl(b)), s, "value")
    # 3. rotations and normalised axes: tolerance, linear target
    for tf in APPROX_TF:
        s = R.Script()
        app(s, target(s, "lin"), tf)
        emit("rot:lin:" + lbl(tf), s, "approx")
    for a, b in itertools.product([APPROX_TF[0], APPROX_TF[13], APPROX_TF[27], APPROX_TF[-4]], [EXACT_TF[0], EXACT_TF[2], EXACT_TF[6]]):
        for first, second in ((a, b), (b, a)):
            s = R.Script()
            app(s, app(s, target(s, "lin"), first), second)
            emit("rot2:lin:%s.%s" % (lbl(first), lbl(second)), s, "approx")
    # 4. revolve / extrude / loft
    for tg in ("uf2", "lin2"):
        for off in (0, 1.5, -0.5):
            s = R.Script()
            sh(s, "RevolveY", [target(s, tg)], (off,))
            emit("revolve:%s:%s" % (tg, off), s, "value", 1 if off == 0 else 2)
        s = R.Script()
        sh(s, "ExtrudeZ", [target(s, tg)], (-0.5, 2))
        emit("extrude:%s" % tg, s, "sign")
        s = R.Script()
        sh(s, "LoftZ", [target(s, tg), target(s, "mm")], (-1, 3))
        emit("loft:%s" % tg, s, "sign")
    s = R.Script()
    sh(s, "ExtrudeZ", [sh(s, "Circle", (), (0.5, -1, 2))], (0, 1))
    emit("extrude:circle", s, "sign")
    s = R.Script()
    sh(s, "RevolveY", [sh(s, "Circle", (), (2, 0, 0.5))], (0,))
    emit("revolve:torus", s, "sign")
    # 5. named planes / axes as trees
    for pl in ("XY", "YZ", "ZX"):
        s = R.Script()
        sh(s, "Plane@" + pl)
        emit("plane:" + pl, s, "value", 2)
    for ax, f in (("X", (0.5,)), ("Y", (-1,)), ("Z", (2,)), ("V", (0, 2, 0, 1))):
        s = R.Script()
        sh(s, "Plane@" + ax, (), f)
        emit("plane:%s%s" % (ax, f), s, "value")
    s = R.Script()
    sh(s, "Plane@V", (), (3, 4, 0, 0.5))
    emit("plane:V(3,4,0,0.5)", s, "approx")
    # 6. CSG over opaque arguments
    tgs = ["uf", "lin", "mm", "e", "var"]
    for comb in ("Union", "Intersection"):
        for n in (0, 1, 2, 3, 4, 5):
            s = R.Script()
            sh(s, comb, [target(s, t) for t in tgs[:n]])
            emit("csg:%s%d" % (comb, n), s, "sign")
    s = R.Script()
    sh(s, "Inverse", [target(s, "uf")])
    emit("csg:Inverse", s, "sign")
    s = R.Script()
    sh(s, "Difference", [target(s, "uf"), target(s, "mm")])
    emit("csg:Difference", s, "sign")
    s = R.Script()
    a, b, c, d = (target(s, t) for t in tgs[:4])
    sh(s, "Difference", [sh(s, "Union", [a, b]), sh(s, "Intersection", [c, sh(s, "Inverse", [d])])])
    emit("csg:nested", s, "sign")
    s = R.Script()
    a, b = sh(s, "Sphere", (), (0, 0, 0, 1)), sh(s, "Box", (), (0, 0, 0, 2, 2, 2))
    sh(s, "Move", [sh(s, "Difference", [a, b])], (1, 0, 0))
    emit("csg:sphere-box.moved", s, "sign")
    s = R.Script()
    sh(s, "Union", [sh(s, "Move", [sh(s, "Circle", (), (0, 0, 1))], (2, 0, 0)), sh(s, "Rectangle", (), (-1, -1, 1, 1))])
    emit("csg:circle+rect", s, "sign")
    for rad in (0.5, 0, -1):
        s = R.Script()
        sh(s, "Blend", [target(s, "uf"), target(s, "mm")], (rad,))
        emit("csg:Blend(%s)" % rad, s, "blend")
    return out


# ---------------------------------------------------------------------------
# solver side


def obligation(rec, alt):
    """SMT text of the negated obligation, or raises."""
    enc = AxEnc()
    impl = R.sym_graph_real(enc, graph_lines(rec["graph"]), rec["root"])
    spec = Spec(rec["script"], alt)
    ts = ToSmt(enc)
    root = (("var", "p_X"), ("var", "p_Y"), ("var", "p_Z"))
    for v in ("p_X", "p_Y", "p_Z"):
        enc.var(v)
    last = len(spec.st) - 1
    kind = rec["kind"]
    if kind == "value":
        neg = "(not (= %s %s))" % (impl, ts.v(spec.val(last, root)))
    elif kind == "approx":
        sv = ts.v(spec.val(last, root))
        scale = "(+ 1.0 %s)" % " ".join("(ite (< %s 0.0) (- %s) %s)" % (v, v, v) for v in sorted(x for x in enc.decl if x.startswith("p_")))
        neg = "(let ((d (- %s %s)) (e (* %s %s))) (or (> d e) (< d (- e))))" % (impl, sv, R.rat(EPS), scale)
    elif kind == "sign":
        n, p = spec.sgn(last, root)
        neg = "(or (not (= (< %s 0.0) %s)) (not (= (> %s 0.0) %s)))" % (impl, ts.b(n), impl, ts.b(p))
    elif kind == "blend":
        t = spec.st[last]
        name, sel, trees, f = Spec.shape_args(t)
        a, b = ts.v(spec.val(trees[0], root)), ts.v(spec.val(trees[1], root))
        mn = "(ite (< %s %s) %s %s)" % (a, b, a, b)
        far = "true" if f[0] <= 0 else "(or (>= (- %s %s) %s) (>= (- %s %s) %s))" % (a, b, R.rat(f[0]), b, a, R.rat(f[0]))
        # a smooth union: never outside the plain union, and equal to it away from the seam
        neg = "(or (> %s %s) (and %s (not (= %s %s))))" % (impl, mn, far, impl, mn)
    else:
        raise ValueError(kind)
    lines = list(enc.lines)
    ax = enc.axioms()
    lines = list(enc.lines)  # axioms() may declare
    text = "(push 1)\n" + "\n".join(lines) + "\n" + "".join("(assert %s)\n" % a for a in ax + ts.side) + "(assert %s)\n(check-sat)\n" % neg
    return text, sorted(v for v in enc.decl if v.startswith("p_"))


def graph_lines(lines):
    """±inf constants (empty union / intersection) become ±BIG for the real-arithmetic reading."""
    out = []
    for l in lines:
        t = l.split()
        if t[0] == "const":
            b = int(t[1], 16)
            if b & 0x7FFFFFFF == 0x7F800000:
                l = "const 0x%08x" % (0x71800000 | (b & 0x80000000))  # 2^100
        out.append(l)
    return out


def check_one(solver, rec):
    res_all = []
    for alt in range(rec["alts"]):
        try:
            text, pvars = obligation(rec, alt)
        except NoValue as e:
            return {"status": "error", "error": "no value spec: %s" % e}
        except Exception as e:
            return {"status": "error", "error": repr(e)}
        res, _ = solver.check(text)
        model = None
        if res == "sat":
            solver.send("(get-value (%s))\n" % " ".join(pvars))
            solver.send('(echo "<<done>>")\n')
            solver.p.stdin.flush()
            buf = []
            while True:
                line = solver.p.stdout.readline()
                if not line or line.strip() in ("<<done>>", '"<<done>>"'):
                    break
                buf.append(line.strip())
            try:
                model = {k: float(v) for k, v in R.parse_real_values(" ".join(buf)).items()}
            except Exception:
                model = None
        solver.send("(pop 1)\n")
        res_all.append((res, model))
        if res == "unsat":
            return {"status": "unsat", "alt": alt}
    # no accepted reading is valid: report the first definite answer
    for res, model in res_all:
        if res == "sat":
            return {"status": "sat", "model": model}
    return {"status": res_all[0][0]}


_solver = None


def work(chunk):
    global _solver
    if _solver is None:
        _solver = Solver("z3", timeout_ms=30000)
    t0 = _solver.time_s
    out = [check_one(_solver, rec) for rec in chunk]
    return out, _solver.time_s - t0


GRID = [(x, y, z, 0.5, 1.25) for x in (-2.75, -1.25, -0.375, 0.25, 0.875, 1.75, 3.125) for y in (-2.5, -0.75, 0.125, 1.0, 2.25)
        for z in (-1.5, -0.25, 0.5, 1.25, 2.75)]


def native_check(rec, model):
    """Confirms a solver counterexample against Context::eval of the imported
    graph at the model point and on a grid; returns (bad record | None, raw)."""
    pts = list(GRID)
    if model:
        pts.insert(0, (model.get("p_X", 0.0), model.get("p_Y", 0.0), model.get("p_Z", 0.0), model.get("p_v0", 0.0), model.get("p_v1", 0.0)))
    pts = [tuple(struct_f32(v) for v in p) for p in pts]
    nat = R.run_tvdump([("r", rec["script"])], pts).get("r")
    if nat is None or "panic" in nat:
        return {"panic": nat}, nat
    root = (("var", "p_X"), ("var", "p_Y"), ("var", "p_Z"))
    kind = rec["kind"]
    bads = []
    for alt in range(rec["alts"]):
        spec = Spec(rec["script"], alt)
        last = len(spec.st) - 1
        bad = None
        for p, ev in zip(pts, nat.get("evals", [])):
            env = {"p_X": p[0], "p_Y": p[1], "p_Z": p[2], "p_v0": p[3], "p_v1": p[4]}
            got = ev["imported"]
            if not isinstance(got, (int, float)) or not math.isfinite(got):
                continue
            if kind in ("value", "approx"):
                want = to_float(spec.val(last, root), env)
                if math.isfinite(want) and abs(got - want) > 1e-3 * (1 + abs(want)):
                    bad = {"point": p, "imported": got, "specification": want}
            elif kind == "sign":
                n, ps = spec.sgn(last, root)
                n, ps = to_bool(n, env), to_bool(ps, env)
                if (got < -1e-3 and not n) or (got > 1e-3 and not ps):
                    bad = {"point": p, "imported": got, "specification": "inside" if n else ("outside" if ps else "boundary")}
            elif kind == "blend":
                name, sel, trees, f = Spec.shape_args(spec.st[last])
                a, b = to_float(spec.val(trees[0], root), env), to_float(spec.val(trees[1], root), env)
                if math.isfinite(a) and math.isfinite(b):
                    if got > min(a, b) + 1e-3 or ((f[0] <= 0 or abs(a - b) >= f[0]) and abs(got - min(a, b)) > 1e-3):
                        bad = {"point": p, "imported": got, "specification": "min(%r, %r), radius %s" % (a, b, float(f[0]))}
            if bad:
                break
        if bad is None:
            return None, nat  # this reading is not contradicted natively
        bads.append(bad)
    return bads[0], nat


def struct_f32(v):
    import struct

    return struct.unpack("<f", struct.pack("<f", float(v)))[0]


def signature(name):
    """role-based key: scenario family + the shapes involved (no parameters)"""
    import re

    fam, _, rest = name.partition(":")
    shapes = re.findall(r"[A-Z][A-Za-z]+(?:@[A-Z]+)?", rest)
    return "%s:%s" % (fam, ".".join(shapes))


class ShapesTVUnit:
    name = "tv:shapes"

    def run(self, prop, tier, only=None):
        from tv_units import save_replay

        r = UnitResult(self.name)
        t0 = time.time()
        r.functions = ["<Tree as From<fidget_shapes::{Circle, Rectangle, Sphere, Box, Union, Intersection, Inverse, Difference, Blend, Move, "
                       "Scale, ScaleUniform, Reflect, ReflectX, ReflectY, ReflectZ, ReflectXY, Rotate, RotateX, RotateY, RotateZ, RevolveY, "
                       "ExtrudeZ, LoftZ, RepeatX}>>::from", "<Tree as From<fidget_shapes::types::Plane>>::from",
                       "fidget_shapes::types::{Axis::{X, Y, Z, try_from}, Plane::{XY, YZ, ZX}}",
                       "fidget_core::context::Tree::{remap_xyz, remap_affine}", "fidget_core::Context::import"]
        r.assumptions = ["arithmetic is read over the reals (+ - * / neg abs square min max exact; sqrt and mod by their defining axioms; "
                         "every other opcode uninterpreted); f32 rounding is outside the claim",
                         "the specification of every shape is written from its documentation (lib/shapes_tv.py: Spec); where the documentation "
                         "leaves a choice (orientation of a named plane, which side a revolve offset moves the axis to) every documented reading is accepted",
                         "rotations and normalised axes are compared on a linear target with tolerance %s*(1+|x|+|y|+|z|+|v|)" % float(EPS),
                         "z3 4.8.12 (QF_UFNRA / mixed integer for mod)"]
        r.bounds = {"parameters": "fixed dyadic parameter sets per shape (see lib/shapes_tv.py); angles 0, +-90, 180, 45, 30, 60, 120, -30 degrees",
                    "composition": "single transforms and all ordered pairs over opaque targets; primitives under four transforms; CSG with 0..5 opaque "
                                   "arguments and one nested combination",
                    "outside": "other parameter values (negative or zero scales / radii, non-dyadic offsets), deeper compositions, f32 rounding, "
                               "Blend beyond 'contains the union, equals it away from the seam', ReflectXY with a non-zero offset, "
                               "the facet metadata / defaults, fidget-rhai bindings"}
        if not T.build_tvdump():
            r.inconclusive.append("tvdump build failed")
            return r
        scs = scenarios(tier)
        if only:
            scs = [s for s in scs if only in s[0]]
        recs = R.run_tvdump([(str(i), sc[1]) for i, sc in enumerate(scs)])
        items = []
        for i, (name, sc, kind, alts) in enumerate(scs):
            rec = recs.get(str(i))
            if rec is None or "panic" in rec:
                r.obligations += 1
                path = save_replay(prop, "shape_%d" % i, {"engine": "tv", "kind": "shapes", "name": name, "script": sc, "obl": kind, "alts": alts,
                                                          "panic": rec})
                r.findings.append(Finding(prop, "tv:shapes:panic:" + signature(name), "building %s panics: %s" % (name, rec), {}, path))
                continue
            rec.update(script=sc, name=name, kind=kind, alts=alts)
            items.append(rec)
        chunks = list(T.chunks(items, 8))
        cand = []
        with mp.Pool(NPROC) as pool:
            for ch, (out, secs) in zip(chunks, pool.imap(work, chunks)):
                r.solver_s += secs
                for rec, x in zip(ch, out):
                    r.obligations += 1
                    r.queries += 1
                    r.extra["programs"] = r.extra.get("programs", 0) + 1
                    if x["status"] == "unsat":
                        r.discharged += 1
                        r.nontrivial += 1
                        if len(r.samples) < 4 and rec["name"].split(":")[0] in ("prim", "csg", "rot", "revolve"):
                            r.samples.append({"scenario": rec["name"], "obligation": rec["kind"], "script": rec["script"],
                                              "imported_graph_nodes": len(rec["graph"]), "verdict": "unsat: graph meets the documented geometry for all points"})
                    elif x["status"] == "sat":
                        cand.append((rec, x))
                    else:
                        r.inconclusive.append("scenario %s: solver answered %s %s" % (rec["name"], x["status"], x.get("error", "")))
        r.extra["disagreements_checked"] = 0
        seen = set()
        for rec, x in cand:
            key = "tv:shapes:" + signature(rec["name"])
            if key in seen:
                continue
            r.extra["disagreements_checked"] += 1
            bad, nat = native_check(rec, x.get("model"))
            if bad:
                seen.add(key)
                path = save_replay(prop, "shape_%s" % "".join(c if c.isalnum() else "_" for c in rec["name"]),
                                   {"engine": "tv", "kind": "shapes", "name": rec["name"], "script": rec["script"], "obl": rec["kind"],
                                    "alts": rec["alts"], "model": x.get("model"), "first_bad": bad, "context_graph": rec["graph"]})
                r.findings.append(Finding(prop, key, "%s: the built tree evaluates to %s where the documented geometry gives %s (point %s)" % (
                    rec["name"], bad.get("imported"), bad.get("specification"), bad.get("point")), {}, path))
            else:
                r.inconclusive.append("scenario %s: solver reports a difference that Context::eval does not show on %d points" % (
                    rec["name"], len(GRID) + 1))
        r.extra["witness"] = self.witness()
        if not r.extra["witness"]["ok"]:
            r.inconclusive.append("vacuity witness failed: %s" % r.extra["witness"])
        r.extra["wall_s"] = round(time.time() - t0, 1)
        return r

    def witness(self):
        """Deliberately wrong specifications must be refuted: Move read with the
        opposite sign, a sphere against the radius-2 ball, union read as intersection."""
        out = {}
        cases = []
        s1, s2 = R.Script(), R.Script()
        sh(s1, "Move", [target(s1, "uf")], (1, 2, -3))
        sh(s2, "Move", [target(s2, "uf")], (-1, -2, 3))
        cases.append(("move", s1, s2, "value"))
        s1, s2 = R.Script(), R.Script()
        sh(s1, "Sphere", (), (0, 0, 0, 1))
        sh(s2, "Sphere", (), (0, 0, 0, 2))
        cases.append(("sphere", s1, s2, "sign"))
        s1, s2 = R.Script(), R.Script()
        sh(s1, "Union", [target(s1, "uf"), target(s1, "mm")])
        sh(s2, "Intersection", [target(s2, "uf"), target(s2, "mm")])
        cases.append(("union", s1, s2, "sign"))
        s1, s2 = R.Script(), R.Script()
        sh(s1, "Rotate@Z", [target(s1, "lin")], (90, 0, 0, 0))
        sh(s2, "Rotate@Z", [target(s2, "lin")], (-90, 0, 0, 0))
        cases.append(("rotate", s1, s2, "approx"))
        solver = Solver("z3", timeout_ms=30000)
        for nm, a, b, kind in cases:
            rec = R.run_tvdump([("w", a.text())]).get("w")
            if not rec or "graph" not in rec:
                solver.close()
                return {"ok": False, "why": "tvdump failed on %s" % nm}
            rec.update(script=b.text(), kind=kind, alts=1)
            out[nm] = check_one(solver, rec)["status"]
        solver.close()
        out["ok"] = all(v == "sat" for v in out.values())
        return out


def replay(prop, rp, path):
    if not T.build_tvdump():
        return 2
    rec = {"script": rp["script"], "kind": rp.get("obl", "value"), "alts": rp.get("alts", 1)}
    bad, nat = native_check(rec, rp.get("model"))
    print(json.dumps(bad, indent=1, default=str)[:3000])
    if bad:
        print("VIOLATION property=%s replay=%s" % (prop, path))
        return 1
    return 0
