"""C13 REMAP-TV: builder scripts with nested remap_xyz / remap_affine are run
through the real Tree builder API and Context::import (tvdump remap); the graph
the Context holds is compared, by z3 over the reals, with the same script read
as substitution ("the target at the remapped coordinates, later remaps applied
to the coordinates first").

Arithmetic is interpreted over the reals (+ - * / neg abs square min max are
exact, the other opcodes are uninterpreted functions), so the verdict is about
the *structure* the importer builds -- frames, matrix composition order,
which coefficient multiplies which axis, the (frame, subtree) cache -- and not
about f32 rounding; all matrices and constants are small dyadic rationals, so
the f32 matrix products and constant folds done by the real code are exact.
"""
import itertools
import json
import multiprocessing as mp
import os
import random
import struct
import subprocess
import time
from fractions import Fraction

import tv_engine as T
from common import Finding, seed
from props import UnitResult
from smt import Solver

NPROC = 14


def f32bits(v):
    return struct.unpack("<I", struct.pack("<f", v))[0]


def bits_frac(b):
    return Fraction(struct.unpack("<f", struct.pack("<I", b))[0])


# ---------------------------------------------------------------------------
# script builder


class Script:
    def __init__(self):
        self.st = []

    def add(self, *parts):
        s = " ".join(str(p) for p in parts)
        self.st.append(s)
        return len(self.st) - 1

    def leaf(self, s):
        # leaves are fresh statements every time (fresh Arc each, like Tree::x())
        return self.add(s)

    def c(self, v):
        return self.add("c", "0x%08x" % f32bits(v))

    def u(self, op, a):
        return self.add("u", op, a)

    def b(self, op, a, b):
        return self.add("b", op, a, b)

    def rx(self, t, x, y, z):
        return self.add("rx", t, x, y, z)

    def ra(self, t, m):
        return self.add("ra", t, *["0x%08x" % f32bits(v) for v in m])

    def text(self):
        return ";".join(self.st)


MATS = {
    "T": [1, 0, 0, 1, 0, 1, 0, 2, 0, 0, 1, -3],
    "S": [2, 0, 0, 0, 0, 0.5, 0, 0, 0, 0, 4, 0],
    "RZ": [0, -1, 0, 0, 1, 0, 0, 0, 0, 0, 1, 0],
    "RX": [1, 0, 0, 0, 0, 0, -1, 0, 0, 1, 0, 0],
    "SH": [1, 2, 0.5, 0, 0, 1, 3, 0, -1, 0, 1, 0],
    "G": [1, 2, 3, 4, 5, 6, 7, 8, 9, 10, 11.5, 12],
}


def target(s, name):
    """Target trees; every one tells the three axes apart."""
    x, y, z = s.leaf("x"), s.leaf("y"), s.leaf("z")
    if name == "lin":  # x + 2y + 4z + 8 v0
        return s.b("Add", s.b("Add", x, s.b("Mul", y, s.c(2))), s.b("Add", s.b("Mul", z, s.c(4)), s.b("Mul", s.leaf("v 0"), s.c(8))))
    if name == "uf":  # sqrt(x) + 2 sin(y) - exp(z)
        return s.b("Sub", s.b("Add", s.u("Sqrt", x), s.b("Mul", s.u("Sin", y), s.c(2))), s.u("Exp", z))
    if name == "mm":  # min(x, y) - max(y, 3z)
        return s.b("Sub", s.b("Min", x, y), s.b("Max", y, s.b("Mul", z, s.c(3))))
    if name == "sh":  # shared subtree used under two frames inside the target
        sh = s.b("Sub", x, s.b("Mul", y, s.c(2)))
        return s.b("Add", s.b("Add", s.u("Sqrt", sh), s.ra(sh, MATS["T"])), z)
    if name == "nl":  # x*y + z^2 (axis by axis)
        return s.b("Add", s.b("Mul", x, y), s.u("Square", z))
    if name == "var":  # v0 * x + atan2(y, v1) + z
        return s.b("Add", s.b("Add", s.b("Mul", s.leaf("v 0"), x), s.b("Atan", y, s.leaf("v 1"))), z)
    raise KeyError(name)


def remap(s, t, name):
    if name in MATS:
        return s.ra(t, MATS[name])
    x, y, z = s.leaf("x"), s.leaf("y"), s.leaf("z")
    if name == "perm":
        return s.rx(t, y, z, x)
    if name == "plin":
        return s.rx(t, s.b("Add", x, s.c(1)), s.b("Mul", y, s.c(2)), s.b("Sub", z, x))
    if name == "pnl":
        return s.rx(t, s.u("Cos", x), s.b("Min", x, y), z)
    if name == "psh":  # one shared argument tree in two slots, one of them itself remapped
        sh = s.b("Add", s.b("Mul", x, s.c(2)), z)
        return s.rx(t, sh, s.ra(sh, MATS["T"]), y)
    if name == "paff":  # arguments that are remapped axes
        return s.rx(t, s.ra(x, MATS["G"]), y, s.ra(z, MATS["RZ"]))
    raise KeyError(name)


REMAPS = list(MATS) + ["perm", "plin", "pnl", "psh", "paff"]
TARGETS = ["lin", "uf", "mm", "sh", "nl", "var"]


def scenarios(tier):
    out = []

    def emit(name, s):
        out.append((name, s.text()))

    # A: chains  target.r1.r2[.r3]
    for tg in TARGETS:
        for depth in (1, 2, 3, 4):
            if depth == 4 and (tier == "quick" or tg not in ("lin", "uf", "sh")):
                continue
            for rs in itertools.product(REMAPS, repeat=depth):
                if depth >= 3 and tg == "nl" and sum(r in ("SH", "G", "psh", "paff") for r in rs) > 1:
                    continue  # degree-2 polynomials in dense forms: slow in nlsat, nothing new structurally
                s = Script()
                t = target(s, tg)
                for r in rs:
                    t = remap(s, t, r)
                emit("chain:%s:%s" % (tg, ".".join(rs)), s)
    # B: one shared subtree under different frames
    for tg in ("uf", "mm", "sh", "var"):
        for op in ("Add", "Min"):
            for r1, r2 in itertools.product(REMAPS, repeat=2):
                s = Script()
                sh = target(s, tg)
                emit("share1:%s:%s:%s.%s" % (tg, op, r1, r2), _then(s, s.b(op, remap(s, sh, r1), sh), r2))
                s = Script()
                sh = target(s, tg)
                s.b(op, remap(s, sh, r1), remap(s, sh, r2))
                emit("share2:%s:%s:%s.%s" % (tg, op, r1, r2), s)
                s = Script()
                sh = target(s, tg)
                a = remap(s, sh, r1)
                s.b(op, remap(s, a, r2), a)
                emit("share3:%s:%s:%s.%s" % (tg, op, r1, r2), s)
    # C: remapped trees as remap arguments, then remapped again
    for tg in ("lin", "uf", "mm"):
        for r1, r2 in itertools.product(REMAPS, repeat=2):
            s = Script()
            t = target(s, tg)
            sh = s.b("Sub", s.leaf("x"), s.leaf("z"))
            a = remap(s, sh, r1)
            t = s.rx(t, a, s.leaf("y"), sh)
            remap(s, t, r2)
            emit("args:%s:%s.%s" % (tg, r1, r2), s)
    return out


def _then(s, t, r):
    remap(s, t, r)
    return s


# ---------------------------------------------------------------------------
# real-arithmetic semantics


def rat(fr):
    fr = Fraction(fr)
    n, d = fr.numerator, fr.denominator
    t = "%d.0" % abs(n) if d == 1 else "(/ %d.0 %d.0)" % (abs(n), d)
    return "(- %s)" % t if n < 0 else t


UNARY_REAL = {
    "Neg": lambda a: "(- %s)" % a,
    "Abs": lambda a: "(ite (< %s 0.0) (- %s) %s)" % (a, a, a),
    "Square": lambda a: "(* %s %s)" % (a, a),
    "Recip": lambda a: "(/ 1.0 %s)" % a,
}
BINARY_REAL = {
    "Add": lambda a, b: "(+ %s %s)" % (a, b),
    "Sub": lambda a, b: "(- %s %s)" % (a, b),
    "Mul": lambda a, b: "(* %s %s)" % (a, b),
    "Div": lambda a, b: "(/ %s %s)" % (a, b),
    "Min": lambda a, b: "(ite (< %s %s) %s %s)" % (a, b, a, b),
    "Max": lambda a, b: "(ite (< %s %s) %s %s)" % (a, b, b, a),
}


class REnc:
    def __init__(self):
        self.lines = []
        self.decl = set()
        self.n = 0

    def var(self, name):
        if name not in self.decl:
            self.decl.add(name)
            self.lines.append("(declare-const %s Real)" % name)
        return name

    def uf(self, name, arity):
        if name not in self.decl:
            self.decl.add(name)
            self.lines.append("(declare-fun %s (%s) Real)" % (name, " ".join(["Real"] * arity)))
        return name

    def define(self, expr):
        self.n += 1
        nm = "t%d" % self.n
        self.lines.append("(define-fun %s () Real %s)" % (nm, expr))
        return nm

    def un(self, op, a):
        if op in UNARY_REAL:
            return self.define(UNARY_REAL[op](a))
        return self.define("(%s %s)" % (self.uf("f_" + op, 1), a))

    def bin(self, op, a, b):
        if op in BINARY_REAL:
            return self.define(BINARY_REAL[op](a, b))
        return self.define("(%s %s %s)" % (self.uf("f_" + op, 2), a, b))


def sym_graph_real(enc, lines, root):
    val = []
    for line in lines:
        t = line.split()
        if t[0] == "in":
            val.append(enc.var("p_" + t[1]))
        elif t[0] == "const":
            val.append(rat(bits_frac(int(t[1], 16))))
        elif t[0] == "un":
            val.append(enc.un(t[1], val[int(t[2])]))
        elif t[0] == "bin":
            val.append(enc.bin(t[1], val[int(t[2])], val[int(t[3])]))
        else:
            raise ValueError(line)
    return val[root]


def sym_script_real(enc, script):
    """The script as substitution.  A tree denotes a function of the frame
    (the coordinates it is evaluated at); memoised per (tree, frame)."""
    st = [s.split() for s in script.split(";")]
    memo = {}

    def ev(i, frame):
        key = (i, frame)
        if key in memo:
            return memo[key]
        t = st[i]
        if t[0] == "x":
            v = frame[0]
        elif t[0] == "y":
            v = frame[1]
        elif t[0] == "z":
            v = frame[2]
        elif t[0] == "v":
            v = enc.var("p_v" + t[1])
        elif t[0] == "c":
            v = rat(bits_frac(int(t[1], 16)))
        elif t[0] == "u":
            v = enc.un(t[1], ev(int(t[2]), frame))
        elif t[0] == "b":
            v = enc.bin(t[1], ev(int(t[2]), frame), ev(int(t[3]), frame))
        elif t[0] == "rx":
            g = (ev(int(t[2]), frame), ev(int(t[3]), frame), ev(int(t[4]), frame))
            v = ev(int(t[1]), g)
        elif t[0] == "ra":
            m = [bits_frac(int(w, 16)) for w in t[2:14]]
            g = tuple(enc.define("(+ (* %s %s) (* %s %s) (* %s %s) %s)" % (
                rat(m[4 * r]), frame[0], rat(m[4 * r + 1]), frame[1], rat(m[4 * r + 2]), frame[2], rat(m[4 * r + 3]))) for r in range(3))
            v = ev(int(t[1]), g)
        else:
            raise ValueError(t)
        memo[key] = v
        return v

    root = (enc.var("p_X"), enc.var("p_Y"), enc.var("p_Z"))
    return ev(len(st) - 1, root)


def parse_real_values(s):
    """`((p_X (- (/ 1.0 2.0))) (p_Y 3.0))` -> {name: Fraction}"""
    import re

    toks = re.findall(r"\(|\)|[^\s()]+", s)
    pos = [0]

    def expr():
        t = toks[pos[0]]
        pos[0] += 1
        if t != "(":
            return t
        lst = []
        while toks[pos[0]] != ")":
            lst.append(expr())
        pos[0] += 1
        return lst

    def val(e):
        if isinstance(e, str):
            return Fraction(e.rstrip("?"))
        if e[0] == "-" and len(e) == 2:
            return -val(e[1])
        if e[0] == "/":
            return val(e[1]) / val(e[2])
        raise ValueError(e)

    out = {}
    try:
        top = expr()
        for pair in top:
            try:
                out[pair[0]] = val(pair[1])
            except Exception:
                pass
    except Exception:
        pass
    return out


_solver = None


def check_one(solver, rec):
    enc = REnc()
    try:
        impl = sym_graph_real(enc, rec["graph"], rec["root"])
        spec = sym_script_real(enc, rec["script"])
    except Exception as e:
        return {"status": "error", "error": repr(e)}
    pvars = sorted(v for v in enc.decl if v.startswith("p_"))
    script = "(push 1)\n" + "\n".join(enc.lines) + "\n(assert (not (= %s %s)))\n(check-sat)\n" % (impl, spec)
    res, _ = solver.check(script)
    model = None
    if res == "sat":
        solver.send("(get-value (%s))\n" % " ".join(pvars))
        solver.send('(echo "<<done>>")\n')
        solver.p.stdin.flush()
        buf = []
        while True:
            line = solver.p.stdout.readline()
            if not line or line.strip() in ("<<done>>", '"<<done>>"'):
                break
            buf.append(line.strip())
        model = {k: float(v) for k, v in parse_real_values(" ".join(buf)).items()}
    solver.send("(pop 1)\n")
    return {"status": res, "model": model, "nodes": len(rec["graph"])}


def work(chunk):
    global _solver
    if _solver is None:
        _solver = Solver("z3", timeout_ms=20000)
    t0 = _solver.time_s
    out = [check_one(_solver, rec) for rec in chunk]
    return out, _solver.time_s - t0


def run_tvdump(items, points=None):
    """items: [(id, script)] -> {id: record}"""
    req = []
    for i, sc in items:
        line = "%s|%s" % (i, sc)
        if points:
            line += "|" + ";".join(",".join("0x%08x" % f32bits(v) for v in p) for p in points)
        req.append(line)
    p = subprocess.run([T.TVDUMP, "remap"], input="\n".join(req) + "\n", capture_output=True, text=True)
    out = {}
    for line in p.stdout.splitlines():
        try:
            r = json.loads(line)
            out[str(r["id"])] = r
        except Exception:
            pass
    return out


GENERIC_POINTS = [(0.75, 1.5, -2.25, 0.5, 1.25), (2.0, 0.25, 1.0, -1.5, 0.75), (-1.25, 3.0, 0.5, 2.0, -0.5), (0.125, -0.5, 4.0, 1.0, 3.0),
                  (3.5, 2.5, 1.75, -0.25, 0.375), (1.0, 1.0, 1.0, 1.0, 1.0)]


def native_check(script, model):
    pts = list(GENERIC_POINTS)
    if model:
        pts.insert(0, (model.get("p_X", 0.0), model.get("p_Y", 0.0), model.get("p_Z", 0.0), model.get("p_v0", 0.0), model.get("p_v1", 0.0)))
    rec = run_tvdump([("r", script)], pts).get("r")
    if rec is None or "panic" in rec:
        return None, rec
    bad = [e for e in rec.get("evals", []) if not e["ok"]]
    return bad, rec


def signature(name):
    """Role-based key: the scenario template and the kinds of remap involved
    (affine / axes), not the particular matrices."""
    parts = name.split(":")
    rs = parts[-1].split(".")
    kinds = ["affine" if r in MATS else "axes" for r in rs]
    return "%s:%s" % (parts[0], ".".join(kinds))


class RemapTVUnit:
    name = "tv:remap"

    def run(self, prop, tier, only=None):
        from tv_units import MAX_REPLAYS, save_replay

        r = UnitResult(self.name)
        t0 = time.time()
        r.functions = ["fidget_core::context::Tree::{remap_xyz, remap_affine} (incl. affine flattening)", "fidget_core::Context::import "
                       "(frame stack, affine stack, (axes, subtree) cache)", "Context::{add, sub, mul, ...} constructor rewrites reached by the importer"]
        r.assumptions = ["arithmetic is read over the reals: + - * / neg abs square recip min max exactly, every other opcode as an uninterpreted "
                         "function; f32 rounding is outside the claim (the property allows a tolerance); all matrix entries and constants are small "
                         "dyadic rationals so the f32 matrix products and constant folds of the real code are exact", "z3 4.8.12 (QF_UFNRA fragment)"]
        r.bounds = {"targets": TARGETS, "remaps": REMAPS,
                    "shapes": "chains target.r1[.r2[.r3]]; one shared subtree under two frames (3 arrangements x {Add, Min}); remapped trees as "
                              "remap_xyz arguments followed by another remap; chains of depth <= 3 (thorough: depth 4 for three targets), all combinations",
                    "outside": "deeper nestings, matrices whose products round in f32, TreeOp::RemapAffine nodes nested directly without the "
                               "builder API, stack depth of very deep trees"}
        if not T.build_tvdump():
            r.inconclusive.append("tvdump build failed")
            return r
        scs = scenarios(tier)
        if only:
            scs = [s for s in scs if only in s[0]]
        recs = run_tvdump([(str(i), sc) for i, (_, sc) in enumerate(scs)])
        items = []
        for i, (name, sc) in enumerate(scs):
            rec = recs.get(str(i))
            if rec is None or "panic" in rec:
                r.obligations += 1
                key = "tv:remap:panic:" + signature(name)
                path = save_replay(prop, "remap_%d" % i, {"engine": "tv", "kind": "remap", "name": name, "script": sc, "panic": rec})
                r.findings.append(Finding(prop, key, "importing %s panics: %s" % (name, rec), {}, path))
                continue
            rec["script"] = sc
            rec["name"] = name
            items.append(rec)
        chunks = list(T.chunks(items, 25))
        cand = []
        with mp.Pool(NPROC) as pool:
            for ch, (out, secs) in zip(chunks, pool.imap(work, chunks)):
                r.solver_s += secs
                for rec, x in zip(ch, out):
                    r.obligations += 1
                    r.queries += 1
                    r.extra["programs"] = r.extra.get("programs", 0) + 1
                    if x["status"] == "unsat":
                        r.discharged += 1
                        r.nontrivial += 1
                        if len(r.samples) < 3 and rec["name"].startswith("share"):
                            r.samples.append({"scenario": rec["name"], "script": rec["script"], "imported_graph_nodes": len(rec["graph"]),
                                              "verdict": "unsat: imported graph == substitution for all points (real arithmetic)"})
                    elif x["status"] == "sat":
                        cand.append((rec, x))
                    else:
                        r.inconclusive.append("scenario %s: solver answered %s %s" % (rec["name"], x["status"], x.get("error", "")))
        r.extra["disagreements_checked"] = 0
        seen = set()
        for rec, x in cand:
            key = "tv:remap:" + signature(rec["name"])
            if key in seen:
                continue
            if r.extra["disagreements_checked"] >= MAX_REPLAYS * 4:
                break
            r.extra["disagreements_checked"] += 1
            bad, nat = native_check(rec["script"], x.get("model"))
            if bad:
                seen.add(key)
                path = save_replay(prop, "remap_%s" % rec["name"].replace(":", "_").replace(".", "-"),
                                   {"engine": "tv", "kind": "remap", "name": rec["name"], "script": rec["script"], "model": x.get("model"),
                                    "first_bad": bad[0], "context_graph": rec["graph"]})
                r.findings.append(Finding(prop, key, "importing %s evaluates to %s where the target at the remapped coordinates is %s (point %s)" % (
                    rec["name"], bad[0]["imported"], bad[0]["substitution"], bad[0]["point"]), {}, path))
            else:
                r.inconclusive.append("scenario %s: solver reports a difference that Context::eval does not show on %d points" % (
                    rec["name"], len(GENERIC_POINTS) + 1))
        # vacuity witness: a deliberately wrong reading (earlier remaps first) must be refuted by the solver
        r.extra["witness"] = self.witness()
        if not r.extra["witness"]["ok"]:
            r.inconclusive.append("vacuity witness failed: %s" % r.extra["witness"])
        r.extra["wall_s"] = round(time.time() - t0, 1)
        return r

    def witness(self):
        """The real import of target.T.S compared with the substitution for
        target.S.T (the wrong composition order) must be `sat`."""
        out = {}
        for tg in ("lin", "uf"):
            s1, s2 = Script(), Script()
            remap(s1, remap(s1, target(s1, tg), "T"), "S")
            remap(s2, remap(s2, target(s2, tg), "S"), "T")
            rec = run_tvdump([("w", s1.text())]).get("w")
            if not rec or "graph" not in rec:
                return {"ok": False, "why": "tvdump failed"}
            rec["script"] = s2.text()
            solver = Solver("z3", timeout_ms=20000)
            x = check_one(solver, rec)
            solver.close()
            out[tg] = x["status"]
        out["ok"] = all(v == "sat" for k, v in out.items())
        return out


def replay(prop, rp, path):
    if not T.build_tvdump():
        return 2
    bad, nat = native_check(rp["script"], rp.get("model"))
    print(json.dumps(nat, indent=1)[:3000])
    if bad is None or bad:
        print("VIOLATION property=%s replay=%s" % (prop, path))
        return 1
    return 0
