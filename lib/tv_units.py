"""E-TV units (one per compiler pass)."""
import json
import multiprocessing as mp
import os
import time

import tv_engine as T
from common import REPLAYS, Finding, log, seed
from props import UnitResult

NPROC = 14


def pool_map(fn, chunk_iter):
    with mp.Pool(NPROC) as pool:
        for res in pool.imap_unordered(fn, chunk_iter, chunksize=1):
            yield res


def check_optable(r):
    """The tool's opcode tables must cover exactly the repo's opcode enum."""
    rc, out, _ = T.run([T.TVDUMP, "optable"])
    try:
        tool = set(json.loads(out.strip().splitlines()[-1]))
    except Exception:
        r.inconclusive.append("tvdump optable failed: " + out[-300:])
        return False
    repo = set(T.repo_opcode_variants())
    if tool != repo:
        r.inconclusive.append("opcode tables out of date: repo-only=%s tool-only=%s" % (
            sorted(repo - tool), sorted(tool - repo)))
        return False
    r.extra["opcode_variants"] = len(repo)
    return True


def save_replay(prop, name, obj):
    path = os.path.join(REPLAYS, prop, name + ".json")
    os.makedirs(os.path.dirname(path), exist_ok=True)
    obj = dict(obj)
    obj["property"] = prop
    obj["rerun"] = "./check %s --replay %s" % (prop, path)
    with open(path, "w") as f:
        json.dump(obj, f, indent=1)
    return path


class AllocTVUnit:
    """C01 ALLOC-TV: SsaTape -> RegTape::new::<N> preserves every output for
    all input values (UF semantics), for every enumerated program."""

    name = "tv:alloc"

    def streams(self, tier):
        s = seed()
        if tier == "quick":
            return [
                (["alloc", "1", "5", "3,4,255"], None),
                (["alloc", "1", "4", "1,2"], None),
                (["variants", "3,255"], None),
                (["alloc", "6", "6", "3", "1", "0", "spill"], None),
                (["alloc", "7", "7", "3", "40", str(s), "spill"], None),
            ]
        return [
            (["alloc", "1", "5", "3,4,5,8,255"], None),
            (["alloc", "1", "5", "1,2"], None),
            (["variants", "3,4,255"], None),
            (["alloc", "6", "6", "3,4,255"], None),
            (["alloc", "7", "7", "3", "24", str(s)], None),
        ]

    def run(self, prop, tier, only=None):
        r = UnitResult(self.name)
        r.functions = ["fidget_core::compiler::RegTape::new::<N>", "RegisterAllocator::<N>::{op,op_reg_fn,op_reg_reg,"
                       "op_reg_imm,op_output,get_register,get_out_reg,...}", "Lru::<N>"]
        r.assumptions = ["opcodes are uninterpreted functions named after the RegOp/SsaOp variant with ordered operands "
                         "(UF-equivalence implies equivalence under the real f32 semantics; the interpreter's per-opcode "
                         "semantics are tied to the opcode by the VM-OP Kani unit)",
                         "z3 4.8.12 is trusted (QF_UFBV); the symbolic executor of straight-line tapes in tv_engine.py is trusted "
                         "and validated on every run by executing sampled programs natively (reference vs real VM evaluator)"]
        if not T.build_tvdump():
            r.inconclusive.append("tvdump build failed")
            return r
        if not check_optable(r):
            return r
        streams = self.streams(tier)
        r.bounds = {"programs": "all SSA programs with K value-defining ops over {leaf, unary-shaped, binary} with every operand "
                    "combination, no dead code, 1-2 outputs; quick: K<=5 exhaustive at N in {3,4,255} (+N in {1,2} for K<=4), "
                    "K=6 every program that spills at N=3, K=7 1-in-40 sample (VERIF_SEED) of the programs that spill at N=3, "
                    "all-variant programs K<=4; thorough: K<=6 exhaustive at N in {3,4,5,8,255}, K=7 every program that spills at N=3",
                    "streams": [" ".join(a) for a, _ in streams]}
        programs = 0
        spilled = 0
        cases = {}
        loud = 0
        sat = []
        t0 = time.time()
        validate = []

        def records():
            for args, lim in streams:
                for rec in T.stream_records(args, lim):
                    yield rec

        recs_by_id = {}

        def chunked():
            for ch in T.chunks(records(), 400):
                for rec in ch:
                    # keep a few records for validation + every record id for replay lookup
                    if rec["reg"] is not None and (rec["id"] % 997 == 0 or len(validate) < 5
                                                   or (len(validate) < 60 and any(l.startswith("Load") for l in rec["reg"]))):
                        validate.append(rec)
                yield ch

        # records that come back `sat` need the full record: regenerate lazily
        pending = {}
        for ch in chunked():
            pending[ch[0]["id"]] = ch
            if len(pending) >= NPROC * 2:
                self._drain(pending, r, cases, sat)
                pending = {}
        self._drain(pending, r, cases, sat)
        programs = r.extra.get("programs", 0)
        r.extra["spill_cases"] = cases
        r.extra["solver_wall_s"] = round(time.time() - t0, 1)

        # --- validate the encoder: the symbolic executor and the native
        # evaluators must agree that sampled programs are fine
        val_bad = 0
        for rec in validate[:40]:
            res = T.native_eval(rec, T.special_vectors(rec["nvars"], None, count=8))
            if not res or any(not x.get("ok") for x in res):
                val_bad += 1
                sat.append((rec, None, "native"))
        r.extra["encoder_validation_programs"] = len(validate[:40])

        # --- self-test of the encoding (vacuity guard): mutated outputs must
        # be refuted by the solver whenever the native evaluators disagree
        st = self_test_alloc(validate)
        r.extra["selftest"] = st
        if st["native_bad_solver_unsat"] > 0 or st["solver_sat"] == 0:
            r.inconclusive.append("encoder self-test failed: %s" % json.dumps(st))

        # --- replay candidates
        r.extra["disagreements_checked"] = 0
        r.extra["candidates"] = len(sat)
        for rec, model, why in sat[:MAX_REPLAYS]:
            r.extra["disagreements_checked"] += 1
            vecs = T.special_vectors(rec["nvars"], model)
            res = T.native_eval(rec, vecs)
            bad = [x for x in res if not x.get("ok")]
            key = "tv:alloc:n=%d:%s" % (rec["n"], "|".join(rec["ssa"]))
            if bad:
                path = save_replay(prop, "alloc_%d" % rec["id"], {"engine": "tv", "kind": "alloc", "record": rec,
                                                                    "vectors": vecs, "first_bad": bad[0], "why": why})
                r.findings.append(Finding(prop, key, "register allocation (N=%d) changes the value of %s: %s" % (
                    rec["n"], " ; ".join(reversed(rec["ssa"])), json.dumps(bad[0])), {"record": rec}, path))
            else:
                r.inconclusive.append("solver says program %d (N=%d) differs (%s) but native replay agrees on %d vectors" % (
                    rec["id"], rec["n"], why, len(vecs)))
        return r

    def _drain(self, pending, r, cases, sat):
        chunks = list(pending.values())
        by_id = {}
        for ch in chunks:
            for rec in ch:
                by_id[(rec["id"], rec["n"])] = rec
        for out, secs, n in pool_map(T.work_alloc, chunks):
            r.solver_s += secs
            for x in out:
                rec = by_id[(x["id"], x["n"])]
                r.extra["programs"] = r.extra.get("programs", 0) + 1
                st = x["status"]
                if st == "panic":
                    if rec["n"] >= 3:
                        r.obligations += 1
                        r.queries += 0
                        key = "tv:alloc-panic:n=%d:%s" % (rec["n"], "|".join(rec["ssa"]))
                        path = save_replay("C01", "alloc_panic_%d" % rec["id"],
                                           {"engine": "tv", "kind": "alloc-panic", "record": rec})
                        r.findings.append(Finding("C01", key, "allocator panics at N=%d (%s) on %s" % (
                            rec["n"], x.get("panic"), " ; ".join(reversed(rec["ssa"]))), {"record": rec}, path))
                    else:
                        r.extra["loud_failures_small_n"] = r.extra.get("loud_failures_small_n", 0) + 1
                    continue
                r.obligations += 1
                r.queries += 1
                if st == "unsat" and not x["facts_bad"]:
                    r.discharged += 1
                    c = x["case"]
                    cases[c] = cases.get(c, 0) + 1
                    if "loads=0" not in c:
                        r.nontrivial += 1
                    if len(r.samples) < 4 and ("loads=0" not in c or len(r.samples) < 2):
                        r.samples.append({"n": rec["n"], "ssa": list(reversed(rec["ssa"])), "reg": rec["reg"],
                                          "slots": rec["slots"], "verdict": "unsat (equivalent for all inputs)"})
                elif st == "sat" or x["facts_bad"]:
                    sat.append((rec, x.get("model"), "sat" if st == "sat" else "; ".join(x["facts_bad"])))
                else:
                    r.inconclusive.append("program %d: solver answered %s %s" % (rec["id"], st, x.get("error", "")))


MAX_REPLAYS = 6


class FlattenTVUnit:
    """C01 FLATTEN-TV: Context graph -> SsaTape::new -> VmData::<N>::new
    (N in {3,255}) preserves every root for all variable values."""

    name = "tv:flatten"

    def streams(self, tier):
        s = seed()
        if tier == "quick":
            return [["flatten", "1", "2", "1", "0", "small"], ["flatten", "3", "3", "150", str(s), "small"],
                    ["flatten", "1", "1", "1", "0", "all"], ["flatten", "2", "2", "160", str(s), "all"]]
        return [["flatten", "1", "3", "1", "0", "small"], ["flatten", "4", "4", "400", str(s), "small"],
                ["flatten", "1", "1", "1", "0", "all"], ["flatten", "2", "2", "4", str(s), "all"]]

    def run(self, prop, tier, only=None):
        r = UnitResult(self.name)
        r.functions = ["fidget_core::compiler::SsaTape::new", "fidget_core::vm::VmData::<3>::new", "VmData::<255>::new",
                       "fidget_core::Context::{add,sub,mul,div,min,max,and,or,neg,...} (graph construction, read back with get_op)"]
        r.assumptions = ["non-choice opcodes are uninterpreted functions of the base opcode with the operand order the variant "
                         "documents; f32 add/mul are commutative (NaN payloads aside); min/max/and/or are encoded exactly in "
                         "the IEEE FP theory (so a sign-of-zero change is visible)",
                         "the reference is the graph the Context holds (constructor rewrites are C12's business)"]
        if not T.build_tvdump():
            r.inconclusive.append("tvdump build failed")
            return r
        streams = self.streams(tier)
        r.bounds = {"graphs": "all DAGs with K interior nodes over {neg,add,sub,min,and} ('small') x operands {X,Y,1.5,(0.0 for K<=2),earlier node}, "
                    "1-3 roots incl. duplicate and constant roots; 'all' = every unary/binary opcode; quick: K<=2 exhaustive, K=3 1-in-150, "
                    "all-opcode K=1 exhaustive and K=2 1-in-160; thorough: K<=3 exhaustive, K=4 1-in-400, all-opcode K=2 1-in-4",
                    "streams": [" ".join(a) for a in streams]}
        cand = []
        for args in streams:
            pending = []
            for ch in T.chunks(T.stream_records(args), 200):
                for rec in ch:
                    rec["_args"] = args
                pending.append(ch)
                if len(pending) >= NPROC * 2:
                    self._drain(pending, r, cand)
                    pending = []
            self._drain(pending, r, cand)
        r.extra["disagreements_checked"] = 0
        seen_keys = set()
        for rec, x in cand:
            if r.extra["disagreements_checked"] >= MAX_REPLAYS * 4:
                r.extra["candidates_not_replayed"] = r.extra.get("candidates_not_replayed", 0) + 1
                continue
            r.extra["disagreements_checked"] += 1
            self.replay_candidate(prop, rec, x, r, seen_keys)
        return r

    def _drain(self, pending, r, cand):
        by_id = {}
        for ch in pending:
            for rec in ch:
                by_id[(tuple(rec["_args"]), rec["id"])] = rec
        for ch in pending:
            for rec in ch:
                rec["_key"] = (tuple(rec["_args"]), rec["id"])
        # ids are unique per stream; tag results by position instead
        for ch, (out, secs, nq) in zip_results(T.work_flatten, pending):
            r.solver_s += secs
            r.queries += nq
            for rec, x in zip(ch, out):
                r.extra["programs"] = r.extra.get("programs", 0) + 1
                r.obligations += 1
                if x["status"] == "unsat" and not x["problems"]:
                    r.discharged += 1
                    if any(v.get("ssa") and len(v["ssa"]) > 3 for v in rec["vm"] if "ssa" in v):
                        r.nontrivial += 1
                    if len(r.samples) < 3 and rec["k"] >= 2:
                        r.samples.append({"graph": rec["graph"], "roots": rec["roots"], "ssa": rec["vm"][0].get("ssa"),
                                          "reg_n3": rec["vm"][0].get("reg"), "verdict": "unsat: graph == ssa == reg for all inputs"})
                elif x["status"] in ("sat", "panic") or x["problems"]:
                    cand.append((rec, x))
                else:
                    r.inconclusive.append("graph %s: solver answered %s" % (rec["id"], x["status"]))

    def replay_candidate(self, prop, rec, x, r, seen_keys):
        model = x.get("model") or {}
        sp = [0x80000000, 0x00000000, 0x3fc00000, 0x3f800000, 0xbf800000, 0x7fc00000, 0x7f800000, 0x40490fdb]
        vecs = [[model.get("x_X", 0x3f800000), model.get("x_Y", 0x40000000)]]
        for a in sp:
            for b in sp[:4]:
                vecs.append([a, b])
        arg = ";".join(",".join("0x%08x" % v for v in vec) for vec in vecs)
        cmd = [T.TVDUMP] + rec["_args"][:6] + [str(rec["id"]), arg]
        rc, out, _ = T.run(cmd)
        res = []
        for line in out.splitlines():
            try:
                res.append(json.loads(line))
            except Exception:
                pass
        bad = [y for y in res if not y.get("ok")]
        # the finding is identified by the *shape* of the failing clause
        sig = graph_signature(rec)
        key = "tv:flatten:%s" % sig
        what = "flattened tape differs from Context::eval for graph %s roots %s: %s" % (
            rec["graph"], rec["roots"], json.dumps(bad[0]) if bad else x["problems"])
        if bad or (x["status"] == "panic"):
            path = save_replay(prop, "flatten_%s_%d" % ("_".join(rec["_args"][1:5]), rec["id"]),
                               {"engine": "tv", "kind": "flatten", "args": rec["_args"], "id": rec["id"], "vectors": arg,
                                "graph": rec["graph"], "roots": rec["roots"], "first_bad": bad[0] if bad else x["problems"]})
            if key not in seen_keys:
                seen_keys.add(key)
                r.findings.append(Finding(prop, key, what, {"graph": rec["graph"]}, path))
        elif x["problems"]:
            r.inconclusive.append("graph %d: bookkeeping problems %s (no value disagreement)" % (rec["id"], x["problems"]))
        else:
            r.inconclusive.append("solver says graph %d differs but Context::eval and the VM agree on %d vectors" % (rec["id"], len(vecs)))


class SimplifyTVUnit:
    """C04 (and the simplify half of C10): for every enumerated parent and
    every trace in {L,R,B}^k, the child produced by the real simplify_with
    equals the parent on every point compatible with the trace."""

    name = "tv:simplify"

    def __init__(self, reuse_only=False):
        self.reuse_only = reuse_only
        if reuse_only:
            self.name = "tv:simplify-reuse"

    def streams(self, tier):
        s = str(seed())
        if self.reuse_only:
            if tier == "quick":
                return [["simplify", "1", "2", "1", "0", "255-255", "reuse"], ["simplify", "2", "2", "6", s, "255-3", "reuse"],
                        ["simplify", "3", "3", "300", s, "3-3", "reuse"], ["simplify", "0", "0", "1", "0", "3-3", "reuse-wide"]]
            return [["simplify", "1", "2", "1", "0", "255-255", "reuse"], ["simplify", "1", "2", "1", "0", "255-3", "reuse"],
                    ["simplify", "3", "3", "8", s, "3-3", "reuse"], ["simplify", "3", "3", "8", s, "255-255", "reuse"],
                    ["simplify", "0", "0", "1", "0", "3-3", "reuse-wide"]]
        if tier == "quick":
            return [["simplify", "1", "2", "1", "0", "255-255", "fresh"], ["simplify", "2", "2", "6", s, "255-3", "fresh"],
                    ["simplify", "2", "2", "6", s, "3-255", "fresh"], ["simplify", "3", "3", "150", s, "255-255", "fresh"],
                    ["simplify", "3", "3", "300", s, "3-3", "fresh"]]
        return [["simplify", "1", "2", "1", "0", "255-255", "fresh"], ["simplify", "1", "2", "1", "0", "255-3", "fresh"],
                ["simplify", "1", "2", "1", "0", "3-255", "fresh"], ["simplify", "3", "3", "4", s, "255-255", "fresh"],
                ["simplify", "3", "3", "8", s, "3-3", "fresh"], ["simplify", "4", "4", "2000", s, "255-255", "fresh"]]

    def run(self, prop, tier, only=None):
        r = UnitResult(self.name)
        r.functions = ["fidget_core::vm::VmData::<N>::simplify::<M>", "GenericVmFunction::simplify_with", "VmWorkspace::{reset,active,"
                       "get_or_insert_active,set_active}", "RegisterAllocator::<M>::{reset,op,finalize}"]
        r.assumptions = ["min/max/and/or are encoded exactly in the IEEE FP theory on 32-bit patterns; every other opcode is an "
                         "uninterpreted function of its base opcode (Add/Mul commutative)",
                         "a trace entry L/R is modelled as 'the clause's result is bit-identical to that operand at the point', which "
                         "is what the choice kernels guarantee for every point of the traced box (C20 Kani harnesses)",
                         "z3 4.8.12 trusted (QF_UFBVFP)"]
        if not T.build_tvdump():
            r.inconclusive.append("tvdump build failed")
            return r
        streams = self.streams(tier)
        r.bounds = {"parents": "all graphs with K interior nodes over {neg,sub,min,max,and,or} x operands {X,Y,1.5,earlier node} that "
                    "contain 1..4 choice clauses, roots {last} and {last, previous}; every trace in {L,R,B}^k; depth-2 chains when the "
                    "child keeps <=2 clauses; budgets N->M in {255->255, 255->3, 3->255, 3->3}; storage/workspace %s" % (
                        "reused across the traces of a parent" if self.reuse_only else "fresh"),
                    "streams": [" ".join(a) for a in streams]}
        cand = []
        for args in streams:
            pending = []
            for ch in T.chunks(T.stream_records(args), 40):
                for rec in ch:
                    rec["_args"] = args
                pending.append(ch)
                if len(pending) >= NPROC * 2:
                    self._drain(pending, r, cand)
                    pending = []
            self._drain(pending, r, cand)
        r.extra["disagreements_checked"] = 0
        seen = set()
        for rec, x in cand[:MAX_REPLAYS * 4]:
            r.extra["disagreements_checked"] += 1
            self.replay_candidate(prop, rec, x, r, seen)
        if len(cand) > MAX_REPLAYS * 4:
            r.extra["candidates_not_replayed"] = len(cand) - MAX_REPLAYS * 4
        return r

    def _drain(self, pending, r, cand):
        for ch, (out, secs, nq) in zip_results(T.work_simplify, pending):
            r.solver_s += secs
            r.queries += nq
            for rec, x in zip(ch, out):
                r.extra["programs"] = r.extra.get("programs", 0) + 1
                r.extra["traces"] = r.extra.get("traces", 0) + x["traces"]
                r.obligations += x["traces"]
                r.nontrivial += x.get("premise_sat", 0)
                if x["status"] == "unsat" and not x["problems"]:
                    r.discharged += x["traces"]
                    if len(r.samples) < 3 and rec["k"] >= 2:
                        ch0 = rec["children"][0]
                        r.samples.append({"parent_ssa": rec["parent"]["ssa"], "trace": ch0["trace"],
                                          "child_ssa": ch0.get("child", {}).get("ssa"), "budget": rec["budget"],
                                          "verdict": "unsat for all %d traces (+chains)" % x["traces"]})
                elif x["status"] in ("sat", "fail") or x["problems"]:
                    cand.append((rec, x))
                else:
                    r.inconclusive.append("parent %s: solver answered %s" % (rec["id"], x["status"]))

    def replay_candidate(self, prop, rec, x, r, seen):
        model = x.get("model") or {}
        sp = [0x80000000, 0x00000000, 0x3fc00000, 0x3f800000, 0xbf800000, 0x7fc00000, 0x40000000, 0x3fc00001]
        vecs = [[model.get("x_X", 0x3f800000), model.get("x_Y", 0x40000000)]]
        for a in sp:
            for b in sp:
                vecs.append([a, b])
        arg = ";".join(",".join("0x%08x" % v for v in vec) for vec in vecs)
        cmd = [T.TVDUMP] + rec["_args"] + [str(rec["id"]), arg]
        if rec["_args"][-1] == "reuse-wide":
            # the failing trace, from the solver's label ("trace LLR") or the first bookkeeping problem
            import re as _re
            m = _re.search(r"trace ([LRB]+)", x.get("where") or (x["problems"][0] if x["problems"] else ""))
            cmd.append(m.group(1) if m else "")
        rc, out, _ = T.run(cmd)
        res = []
        for line in out.splitlines():
            try:
                y = json.loads(line)
                if "ok" in y:
                    res.append(y)
            except Exception:
                pass
        bad = [y for y in res if not y.get("ok")]
        sig = "|".join(rec["parent"]["ssa"])
        key = "tv:simplify:%s:%s" % (rec["budget"], sig)
        if bad:
            path = save_replay(prop, "simplify_%s_%d" % (rec["budget"], rec["id"]),
                               {"engine": "tv", "kind": "simplify", "args": rec["_args"], "id": rec["id"], "vectors": arg,
                                "parent": rec["parent"], "first_bad": bad[0], "solver": {k: x[k] for k in ("status", "problems", "where") if k in x}})
            if key not in seen:
                seen.add(key)
                r.findings.append(Finding(prop, key, "simplify (%s) breaks parent %s: %s" % (
                    rec["budget"], list(reversed(rec["parent"]["ssa"])), json.dumps(bad[0])), {}, path))
        else:
            r.inconclusive.append("parent %d (%s): solver/bookkeeping reports %s %s but the native replay agrees on %d points" % (
                rec["id"], rec["budget"], x["status"], x["problems"][:2], len(vecs)))


class BytecodeTVUnit:
    """C15: Bytecode::new output, decoded by an interpreter written from the
    format documentation only, computes the register tape."""

    name = "tv:bytecode"

    def streams(self, tier):
        s = str(seed())
        if tier == "quick":
            return [["alloc", "1", "4", "3,255"], ["variants", "3,255"], ["alloc", "6", "6", "3", "4", s, "spill"]]
        return [["alloc", "1", "5", "3,4,255"], ["variants", "3,4,255"], ["alloc", "6", "6", "3", "1", "0", "spill"],
                ["alloc", "7", "7", "3", "60", s, "spill"]]

    def run(self, prop, tier, only=None):
        import subprocess
        r = UnitResult(self.name)
        r.functions = ["fidget_bytecode::Bytecode::new::<N>", "fidget_bytecode::iter_ops", "<BytecodeOp as From<RegOp>>::from",
                       "fidget_core::compiler::RegTape::repack_map"]
        r.assumptions = ["the decoder in tv_engine.decode_bytecode follows the module documentation only (opcode numbers from iter_ops, "
                         "0xFF = immediate, Mem direction flags) and is the 'independent interpreter' of the property",
                         "opcodes are uninterpreted functions of the base opcode; Add/Mul commutative (the format drops the operand "
                         "position of immediates for commutative-by-construction variants only)"]
        if not T.build_tvdump():
            r.inconclusive.append("tvdump build failed")
            return r
        streams = self.streams(tier)
        r.bounds = {"tapes": "register tapes produced by the real allocator for the ALLOC-TV program space at N in {3,4,255} "
                    "(N=3 forces Load/Store) plus the all-variant programs", "streams": [" ".join(a) for a in streams]}
        recs = []
        for args in streams:
            for rec in T.stream_records(args):
                if rec["reg"] is not None and rec["n"] >= 3:
                    recs.append(rec)
        # run the real Bytecode::new on every tape
        req = "\n".join(T.fmt_req(rec) for rec in recs) + "\n"
        p = subprocess.run([T.TVDUMP, "bytecode"], input=req, stdout=subprocess.PIPE, text=True)
        lines = [json.loads(l) for l in p.stdout.splitlines() if l.strip()]
        optable = {}
        for item in lines[0]["optable"]:
            k, v = item.split("=")
            optable[k] = int(v)
        bcs = lines[1:]
        if len(bcs) != len(recs):
            r.inconclusive.append("tvdump bytecode returned %d records for %d requests" % (len(bcs), len(recs)))
            return r
        # every bytecode opcode must be known to the documentation-based decoder
        unk = [k for k in optable if k not in T.BC_DOC_BINARY | T.BC_DOC_UNARY | {"Output", "Input", "Copy", "Mem"}]
        if unk:
            r.inconclusive.append("bytecode opcodes unknown to the decoder: %s" % unk)
        items = [(rec, bc, optable) for rec, bc in zip(recs, bcs)]
        cand = []
        with mp.Pool(NPROC) as pool:
            chunks = list(T.chunks(items, 300))
            for ch, (out, secs, nq) in zip(chunks, pool.imap(T.work_bytecode, chunks)):
                r.solver_s += secs
                r.queries += nq
                for (rec, bc, _), x in zip(ch, out):
                    r.obligations += 1
                    r.extra["programs"] = r.extra.get("programs", 0) + 1
                    if x["status"] == "unsat" and not x["problems"]:
                        r.discharged += 1
                        if x.get("has_mem"):
                            r.nontrivial += 1
                        if len(r.samples) < 3 and x.get("has_mem"):
                            r.samples.append({"n": rec["n"], "reg": rec["reg"], "words": ["0x%08x" % w for w in bc["words"]],
                                              "reg_count": bc["reg_count"], "mem_count": bc["mem_count"],
                                              "verdict": "unsat: decoded bytecode == register tape for all inputs"})
                    elif x["status"] in ("sat", "fail") or x["problems"]:
                        cand.append((rec, bc, x))
                    else:
                        r.inconclusive.append("tape %d: solver answered %s" % (rec["id"], x["status"]))
        r.extra["disagreements_checked"] = 0
        seen = set()
        for rec, bc, x in cand[:MAX_REPLAYS * 4]:
            r.extra["disagreements_checked"] += 1
            # replay: concrete interpretation of the decoded program vs the real VM evaluator
            ok, detail = bytecode_native_replay(rec, bc, optable, x)
            key = "tv:bytecode:%s" % (";".join(sorted(set(p.split(" ")[0] for p in x["problems"]))) or "value")
            if not ok:
                path = save_replay(prop, "bytecode_%d_n%d" % (rec["id"], rec["n"]),
                                   {"engine": "tv", "kind": "bytecode", "record": rec, "bytecode": bc, "optable": optable, "detail": detail})
                if key not in seen:
                    seen.add(key)
                    r.findings.append(Finding(prop, key, "bytecode of tape %s (N=%d): %s" % (rec["reg"], rec["n"], detail), {}, path))
            else:
                r.inconclusive.append("tape %d: solver reports %s %s but concrete replay agrees" % (rec["id"], x["status"], x["problems"][:2]))
        return r


def bytecode_native_replay(rec, bc, optable, x):
    """Concrete replay: format facts are re-checked on the actual words; value
    disagreements are confirmed by interpreting the decoded program with
    distinguishable concrete stand-ins for the opcodes (each opcode maps its
    operands to a fresh hash), against the same interpretation of the tape."""
    if "words" not in bc:
        return False, "Bytecode::new failed: %s" % (bc.get("error") or bc.get("panic"))
    prog, problems = T.decode_bytecode(bc["words"], optable, bc["reg_count"], bc["mem_count"])
    if problems:
        return False, "; ".join(problems[:3])
    import hashlib

    def h(*a):
        return int(hashlib.sha256(repr(a).encode()).hexdigest()[:8], 16)

    tab = T.semtable()

    def base_apply(base, a, b=None):
        if b is None:
            return h(base, a)
        if base in T.COMMUTATIVE_UF:
            a, b = sorted((a, b), key=repr)
        return h(base, a, b)

    for trial in range(4):
        xin = {i: h("in", trial, i) for i in range(8)}
        # tape
        slots = {}
        outs_t = {}
        for line in rec["reg"]:
            t = line.split()
            c = T.op_class(t[0])
            if c == "Output":
                outs_t[int(t[2])] = slots.get(int(t[1]))
            elif c == "Input":
                slots[int(t[1])] = xin[int(t[2])]
            elif c == "CopyImm":
                slots[int(t[1])] = ("k", T.bv(int(t[2], 16)))
            elif c == "CopyReg":
                slots[int(t[1])] = slots.get(int(t[2]))
            elif c == "Load":
                slots[int(t[1])] = slots.get(int(t[2]))
            elif c == "Store":
                slots[int(t[2])] = slots.get(int(t[1]))
            else:
                _, base, lhs = tab[t[0]]
                if c == "un":
                    slots[int(t[1])] = base_apply(base, slots.get(int(t[2])))
                elif c == "imm":
                    a, k = slots.get(int(t[2])), ("k", T.bv(int(t[3], 16)))
                    slots[int(t[1])] = base_apply(base, k, a) if lhs else base_apply(base, a, k)
                else:
                    slots[int(t[1])] = base_apply(base, slots.get(int(t[2])), slots.get(int(t[3])))
        regs, mem, outs_b = {}, {}, {}
        for ins in prog:
            k = ins[0]
            if k == "output":
                outs_b[ins[2]] = regs.get(ins[1])
            elif k == "input":
                regs[ins[1]] = xin[ins[2]]
            elif k == "const":
                regs[ins[1]] = ("k", T.bv(ins[2]))
            elif k == "copy":
                regs[ins[1]] = regs.get(ins[2])
            elif k == "load":
                regs[ins[1]] = mem.get(ins[2])
            elif k == "store":
                mem[ins[2]] = regs.get(ins[1])
            elif k == "un":
                regs[ins[2]] = base_apply(ins[1], regs.get(ins[3]))
            else:
                f = lambda o: ("k", T.bv(o[1])) if o[0] == "imm" else regs.get(o[1])
                regs[ins[2]] = base_apply(ins[1], f(ins[3]), f(ins[4]))
        if outs_t != outs_b:
            return False, "decoded bytecode computes different outputs than the tape (concrete interpretation)"
    return True, ""


class ConstructTVUnit:
    """C12: nodes built through the Context constructors evaluate like the
    expression as written whenever that evaluation stays finite (up to the
    sign of zero); building the same expression twice gives the same node."""

    name = "tv:construct"

    def streams(self, tier):
        s = str(seed())
        if tier == "quick":
            return [["construct", "1", "1", "0"], ["construct", "2", "6", s]]
        return [["construct", "1", "1", "0"], ["construct", "2", "1", "0"]]

    def run(self, prop, tier, only=None):
        import jitsmt

        r = UnitResult(self.name)
        r.functions = ["fidget_core::Context::{add,sub,mul,div,min,max,and,or,neg,abs,recip,sqrt,square,floor,ceil,round,not,compare,"
                       "atan2,modulo,mix,rand,sin,...} incl. op_unary/op_binary constant folding, identity elimination and operand sorting"]
        r.assumptions = ["IEEE-754 binary32 semantics of the SMT FP theory for + - * / sqrt floor ceil round, the documented min/max/and/or/"
                         "compare/not/rand/mix semantics (same specification as E-X); libm, atan2 and modulo are uninterpreted (folding them on "
                         "constants is not judged)", "z3 4.8.12"]
        r.bounds = {"expressions": "level 1: every constructor x operands from {X, Y, 0, -0, 1, -1, 2, 0.5, 3, inf, -inf, NaN, min denormal} on either side "
                    "(same node twice included), unary of unary; level 2: op2(op1(X,b), c) in both operand orders and op2(e, e) for "
                    "op1 in {add,sub,min,max}, op2 in the first eight binary constructors, b,c in {X, Y, 0, 1, -1, 2}; variables fully symbolic; "
                    "quick samples level 2 1-in-6", "streams": [" ".join(a) for a in self.streams(tier)]}
        if not T.build_tvdump():
            r.inconclusive.append("tvdump build failed")
            return r
        cand = []
        for args in self.streams(tier):
            recs = list(T.stream_records(args))
            for rec in recs:
                rec["_args"] = args
            chunks = list(T.chunks(recs, 40))
            with mp.Pool(NPROC) as pool:
                for ch, (out, secs, nq) in zip(chunks, pool.imap(jitsmt.work_construct, [[{k: v for k, v in rec.items() if not k.startswith("_")}
                                                                                          for rec in ch] for ch in chunks])):
                    r.solver_s += secs
                    for rec, x in zip(ch, out):
                        r.obligations += 1
                        r.queries += 2
                        r.extra["programs"] = r.extra.get("programs", 0) + 1
                        if x.get("minmax_commuted"):
                            # exact FP query undecided; decided with min/max read as commutative (sign of a zero result exempt)
                            r.extra["decided_with_minmax_commutative"] = r.extra.get("decided_with_minmax_commutative", 0) + 1
                        if x["status"] == "unsat" and not x["problems"]:
                            r.discharged += 1
                            if x.get("premise_sat") and rec["expr"] != rec["graph"]:
                                r.nontrivial += 1
                                if len(r.samples) < 4:
                                    r.samples.append({"as_written": rec["expr"], "context_graph": rec["graph"],
                                                      "verdict": "unsat: equal for all variable values whenever the evaluation as written is finite"})
                        elif x["status"] in ("sat", "fail") or x["problems"]:
                            cand.append((rec, x))
                        else:
                            r.inconclusive.append("expression %s: solver answered %s" % (rec["expr"], x["status"]))
        r.extra["disagreements_checked"] = 0
        seen = set()
        for rec, x in cand[:MAX_REPLAYS * 4]:
            r.extra["disagreements_checked"] += 1
            model = x.get("model") or {}
            vecs = [[model.get("x_X", 0x3FC00000), model.get("x_Y", 0x40200000)]]
            for a in (0x3F800000, 0xBF800000, 0x40400000, 0x00000000, 0x80000000, 0x3F000000):
                for b in (0x40000000, 0xC0000000, 0x3F800000):
                    vecs.append([a, b])
            arg = ";".join(",".join("0x%08x" % v for v in vec) for vec in vecs)
            rc, out, _ = T.run([T.TVDUMP] + rec["_args"] + [str(rec["id"]), arg])
            res = []
            for line in out.splitlines():
                try:
                    res.append(json.loads(line))
                except Exception:
                    pass
            bad = [y for y in res if not y.get("ok")]
            key = "tv:construct:%s" % construct_signature(rec)
            if bad or x["status"] == "fail" or x["problems"]:
                path = save_replay(prop, "construct_%s_%d" % (rec["_args"][1], rec["id"]),
                                   {"engine": "tv", "kind": "construct", "args": rec["_args"], "id": rec["id"], "vectors": arg,
                                    "as_written": rec["expr"], "context_graph": rec.get("graph"), "first_bad": bad[0] if bad else x["problems"]})
                if key not in seen:
                    seen.add(key)
                    r.findings.append(Finding(prop, key, "Context builds %s as %s: %s" % (rec["expr"], rec.get("graph"),
                                                                                        json.dumps(bad[0]) if bad else x["problems"]), {}, path))
            else:
                r.inconclusive.append("expression %s: solver reports a difference that Context::eval does not show on %d points" % (
                    rec["expr"], len(vecs)))
        return r


def construct_signature(rec):
    """Role-based identifier: the outermost operation as written plus the
    kinds of its operands (constant classes, not values)."""
    def kind(lines, i):
        t = lines[i].split()
        if t[0] == "const":
            v = int(t[1], 16)
            if v in (0, 0x80000000):
                return "zero" if v == 0 else "negzero"
            return "const"
        if t[0] == "in":
            return "var"
        return t[1]
    e = rec["expr"]
    t = e[rec["expr_root"]].split()
    if t[0] == "bin":
        return "%s(%s,%s)" % (t[1], kind(e, int(t[2])), kind(e, int(t[3])))
    if t[0] == "un":
        return "%s(%s)" % (t[1], kind(e, int(t[2])))
    return t[0]


def graph_signature(rec):
    """Role-based identifier of a flatten disagreement: the set of
    (opcode, lhs kind, rhs kind) of the choice/commutative clauses that have a
    constant on the left-hand side (the only place where flattening swaps
    operands)."""
    g = rec["graph"]
    sig = set()
    for line in g:
        t = line.split()
        if t[0] == "bin":
            lk = g[int(t[2])].split()
            rk = g[int(t[3])].split()
            if lk[0] == "const" and rk[0] != "const":
                c = lk[1]
                sig.add("%s(const %s, node)" % (t[1], "zero" if c in ("0x00000000", "0x80000000") else "nonzero"))
    return ",".join(sorted(sig)) or "other:" + "|".join(g)


def zip_results(fn, chunks):
    """imap preserving order, yielding (chunk, result)."""
    with mp.Pool(NPROC) as pool:
        for ch, res in zip(chunks, pool.imap(fn, [[{k: v for k, v in rec.items() if not k.startswith("_")} for rec in ch]
                                                  for ch in chunks], chunksize=1)):
            yield ch, res


def mutate_reg(rec, k):
    """Small semantic mutations of an allocator output (for the self-test)."""
    reg = list(rec["reg"])
    if k == 0:
        for i, l in enumerate(reg):
            t = l.split()
            if T.op_class(t[0]) == "bin" and t[2] != t[3]:
                reg[i] = " ".join([t[0], t[1], t[3], t[2]])
                break
        else:
            return None
    elif k == 1:
        for i, l in enumerate(reg):
            if l.startswith("Store"):
                del reg[i]
                break
        else:
            return None
    else:
        for i, l in enumerate(reg):
            t = l.split()
            if T.op_class(t[0]) in ("un", "imm") and t[1] != t[2]:
                # read the wrong register
                reg[i] = " ".join([t[0], t[1], t[1]] + t[3:])
                break
        else:
            return None
    m = dict(rec)
    m["reg"] = reg
    return m


def self_test_alloc(validate):
    from smt import Solver

    solver = Solver("z3")
    st = {"mutants": 0, "solver_sat": 0, "native_bad": 0, "native_bad_solver_unsat": 0}
    for rec in validate[:30]:
        for k in range(3):
            m = mutate_reg(rec, k)
            if m is None:
                continue
            enc = T.Enc(fp=False)
            try:
                oa, _ = T.sym_ssa(enc, 0, m["ssa"])
                ob, _, facts = T.sym_reg(enc, 0, m["reg"], nregs=m["n"], slot_count=m["slots"])
            except Exception:
                continue
            res, _ = T.query(solver, enc, T.neq_outputs(oa, ob))
            nat = T.native_eval(m, T.special_vectors(m["nvars"], None, count=12))
            bad = any(not x.get("ok") for x in nat)
            st["mutants"] += 1
            st["solver_sat"] += res == "sat"
            st["native_bad"] += bad
            if bad and res != "sat":
                st["native_bad_solver_unsat"] += 1
    solver.close()
    return st


def replay(prop, rp, path):
    kind = rp.get("kind")
    if kind == "remap":
        import remap_tv

        return remap_tv.replay(prop, rp, path)
    if rp.get("engine") == "tv" and kind in ("flatten", "simplify", "construct"):
        # re-run the real pass natively on the recorded program and vectors
        cmd = [T.TVDUMP] + rp["args"] + [str(rp["id"]), rp["vectors"]]
        if rp["args"][-1] == "reuse-wide":
            import re as _re
            sol = rp.get("solver") or {}
            m = _re.search(r"trace ([LRB]+)", sol.get("where") or " ".join(sol.get("problems") or []))
            cmd.append(m.group(1) if m else "")
        rc, out, _ = T.run(cmd)
        res = []
        for line in out.splitlines():
            try:
                y = json.loads(line)
                if "ok" in y:
                    res.append(y)
            except Exception:
                pass
        bad = [y for y in res if not y.get("ok")]
        print(json.dumps(bad[:3], indent=1))
        if not res:
            print("replay produced no evaluations")
            return 2
        if bad:
            print("VIOLATION property=%s replay=%s" % (prop, path))
            return 1
        return 0
    if rp.get("engine") == "ex":
        import ex_units

        return ex_units.replay_file(prop, rp, path)
    return 2
