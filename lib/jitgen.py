"""Scenario generation for E-X: builds register tapes, assembles them with the
real fidget-jit assemblers (tvdump jit), lifts the machine code and writes
the Kani/native harness crate /verif/kani/jitx/src/gen.rs."""
import json
import os
import struct
import subprocess

import lifter
import tv_engine as T
from common import VERIF, seed

IMMS = [0x3FC00000, 0x80000000, 0x7FC00000, 0xC0200000, 0x7F800000, 0x00000000]
CHOICE = {"Min": "min_choice", "Max": "max_choice", "And": "and_choice", "Or": "or_choice"}


class Scenario:
    def __init__(self, sid, kind, name, ops, nvars, nout, slots=14, note=""):
        self.sid = sid
        self.kind = kind
        self.name = name  # harness-name friendly
        self.ops = ops  # register ops, evaluation order
        self.nvars = nvars
        self.nout = nout
        self.slots = slots
        self.note = note
        self.code = None
        self.calls = None

    def req(self, vecs=None):
        s = "%d 12 %d %d %d||%s" % (self.sid, self.slots, self.nvars, self.nout, ";".join(self.ops))
        if vecs is not None:
            s += "|" + ",".join(" ".join("0x%08x" % v for v in vec) for vec in vecs)
        return s


def scenarios(kind, tier):
    sem = T.semtable()
    out = []
    sid = [0]

    def add(name, ops, nvars, nout, slots=14, note=""):
        sid[0] += 1
        out.append(Scenario(sid[0], kind, name, ops, nvars, nout, slots, note))

    quick = tier == "quick"
    un_forms = [(1, 0)] if quick else [(1, 0), (0, 0), (11, 3)]
    bin_forms = [(2, 0, 1), (0, 0, 1), (1, 0, 1)] if quick else [(2, 0, 1), (0, 0, 1), (1, 0, 1), (2, 0, 0), (11, 10, 9)]
    k = 0
    for name in sorted(sem):
        c, base, lhs = sem[name]
        if c == "un":
            for (o, a) in un_forms:
                add("%s_o%d_a%d" % (name, o, a), ["Input %d 0" % a, "%s %d %d" % (name, o, a), "Output %d 0" % o], 1, 1)
        elif c == "imm":
            imms = [IMMS[k % len(IMMS)], IMMS[0]] if quick else IMMS
            k += 1
            for j, imm in enumerate(dict.fromkeys(imms)):
                for (o, a) in un_forms[: (1 if j else len(un_forms))]:
                    add("%s_o%d_a%d_i%08x" % (name, o, a, imm),
                        ["Input %d 0" % a, "%s %d %d 0x%08x" % (name, o, a, imm), "Output %d 0" % o], 1, 1)
        else:
            for (o, l, r) in bin_forms:
                if l == r:
                    ops = ["Input %d 0" % l, "%s %d %d %d" % (name, o, l, r), "Output %d 0" % o]
                    nv = 1
                else:
                    ops = ["Input %d 0" % l, "Input %d 1" % r, "%s %d %d %d" % (name, o, l, r), "Output %d 0" % o]
                    nv = 2
                add("%s_o%d_l%d_r%d" % (name, o, l, r), ops, nv, 1)
    add("CopyReg", ["Input 0 0", "CopyReg 5 0", "Output 5 0"], 1, 1)
    add("CopyImm", ["CopyImm 3 0x3fc00000", "Output 3 0"], 0, 1)
    add("LoadStore", ["Input 0 0", "Input 1 1", "Store 0 12", "Store 1 13", "Load 2 13", "Load 3 12", "SubRegReg 4 3 2",
                      "Output 4 0"], 2, 1, slots=14)
    # two consecutive choice clauses + three outputs
    add("two_choices", ["Input 0 0", "Input 1 1", "MinRegReg 2 0 1", "MaxRegImm 3 2 0x3f000000", "Output 3 0", "Output 2 1",
                        "Output 0 2"], 2, 3)
    add("three_choices_mixed", ["Input 0 0", "Input 1 1", "AndRegReg 2 0 1", "OrRegImm 3 0 0x40000000", "MaxRegReg 4 2 3",
                                "Output 4 0"], 2, 1)
    # a decided clause next to an independent clause (whose operands may be NaN):
    # the trace is reported, so every entry is observable
    for nm in ("MinRegReg", "MaxRegReg", "AndRegReg", "OrRegReg"):
        add("choices_sibling_%s" % nm, ["Input 0 0", "Input 1 1", "Input 2 2", "MinRegReg 3 0 1", "%s 4 2 0" % nm, "Output 3 0",
                                         "Output 4 1"], 3, 2)
    # twelve live registers across a libm call
    ops = ["Input %d %d" % (i, i % 2) for i in range(11)]
    ops += ["AddRegImm %d %d 0x%08x" % (i, i, struct.unpack("<I", struct.pack("<f", float(i)))[0]) for i in range(2, 11)]
    ops += ["SinReg 11 0"]
    acc = 11
    for i in range(11):
        ops.append("SubRegReg %d %d %d" % (acc, acc, i))
    ops.append("Output 11 0")
    add("live12_call", ops, 2, 1)
    # spill slots + call
    add("spill_call", ["Input 0 0", "Input 1 1", "Store 0 12", "Store 1 15", "ExpReg 2 0", "Load 3 15", "Load 4 12",
                       "SubRegReg 5 3 4", "AddRegReg 5 5 2", "Output 5 0"], 2, 1, slots=16)
    # a single spill slot (the highest slot) kept live across a call, for every
    # frame-size residue: 1..4 spill slots
    for n in (1, 2, 3, 4):
        top = 12 + n - 1
        add("spill%d_call" % n, ["Input 0 0", "Input 1 1", "Store 0 %d" % top, "SinReg 2 1", "Load 3 %d" % top, "SubRegReg 4 3 2",
                                  "Output 4 0"], 2, 1, slots=12 + n)
    if kind == "interval":
        # z3 does not decide these within the time budget (max(|l|,|u|)^2; 12
        # chained interval ops around a call): outside the claim
        out = [s for s in out if not s.name.startswith("SquareReg") and s.name != "live12_call"]
    return out


def assemble(scs):
    kind = scs[0].kind
    req = "\n".join(s.req() for s in scs) + "\n"
    p = subprocess.run([T.TVDUMP, "jit", kind], input=req, capture_output=True, text=True)
    lines = [json.loads(l) for l in p.stdout.splitlines() if l.strip()]
    problems = []
    if len(lines) != len(scs):
        problems.append("tvdump jit returned %d records for %d scenarios: %s" % (len(lines), len(scs), p.stderr[-300:]))
        return problems
    for s, r in zip(scs, lines):
        if "code" not in r:
            problems.append("assembling %s failed: %s" % (s.name, r))
            continue
        s.code = r["code"]
        s.calls = r["calls"]
    return problems


def expected_point(s):
    """Rust statements computing the expected outputs/choices of a register
    program with the real f32 kernels.  Returns (lines, n_choices, has_minmax)."""
    sem = T.semtable()
    L = []
    cur = {}
    n = [0]
    choices = []
    minmax = False

    def fresh():
        n[0] += 1
        return "v%d" % n[0]

    for op in s.ops:
        t = op.split()
        name = t[0]
        c = T.op_class(name)
        if c == "Input":
            v = fresh()
            L.append("let %s: f32 = vars[%d];" % (v, int(t[2])))
            cur[int(t[1])] = v
        elif c == "Output":
            L.append("exp_out[%d] = %s;" % (int(t[2]), cur[int(t[1])]))
        elif c == "CopyImm":
            v = fresh()
            L.append("let %s: f32 = f32::from_bits(%s);" % (v, t[2]))
            cur[int(t[1])] = v
        elif c in ("CopyReg", "Load"):
            cur[int(t[1])] = cur[int(t[2])]
        elif c == "Store":
            cur[int(t[2])] = cur[int(t[1])]
        else:
            _, base, lhs = sem[name]
            v = fresh()
            if c == "un":
                L.append("let %s: f32 = U::%s.eval(%s);" % (v, base, cur[int(t[2])]))
            else:
                if c == "imm":
                    a, b = cur[int(t[2])], "f32::from_bits(%s)" % t[3]
                    if lhs:
                        a, b = b, a
                else:
                    a, b = cur[int(t[2])], cur[int(t[3])]
                if base in CHOICE:
                    cv = "c%d" % len(choices)
                    L.append("let (%s, %s): (f32, Choice) = (%s).%s(%s);" % (v, cv, a, CHOICE[base], b))
                    choices.append(cv)
                    if base in ("Min", "Max"):
                        minmax = True
                else:
                    L.append("let %s: f32 = B::%s.eval(%s, %s);" % (v, base, a, b))
            cur[int(t[1])] = v
    return L, choices, minmax


HEAVY = ("Div", "Mod", "Recip", "Mul", "Square", "Mix", "Rand")


def gen_point(scs, tier):
    src = []
    names = []
    table = []
    problems = []
    for s in scs:
        if s.code is None:
            continue
        fn = "lifted_point_%d" % s.sid
        try:
            text, nblocks, nins = lifter.lift(fn, s.code, s.calls, "f32")
        except lifter.LiftError as e:
            problems.append("scenario %s: %s" % (s.name, e))
            continue
        src.append("// scenario %d: %s :: %s" % (s.sid, s.name, " ; ".join(s.ops)))
        src.append(text)
        exp, choices, minmax = expected_point(s)
        hn = "c02_q_point_%s" % s.name
        names.append(hn)
        heavy = any(op.split()[0].startswith(HEAVY) for op in s.ops)
        nch = len(choices)
        H = []
        H.append("#[cfg_attr(kani, kani::proof)]")
        H.append("#[cfg_attr(kani, kani::unwind(%d))]" % (nblocks + 3))
        H.append("STUBS!();")
        H = ["jit_harness!(%s, 18, {" % hn]
        H.append("    let mut m = M::symbolic();")
        H.append("    m.setup_tracing(%d, %d, %d, 4);" % (s.nvars, nch, s.nout))
        H.append("    m.havoc_words(R_A, %d); m.havoc_words(R_B, %d); m.havoc_words(R_C, 1); m.havoc_words(R_D, %d);" % (
            s.nvars, (nch + 2 + 3) // 4, s.nout))
        if heavy:
            H.append("    m.lattice_inputs(%d);" % s.nvars)
        H.append("    let m0 = m.clone();")
        H.append("    %s(&mut m);" % fn)
        H.append("    m.check_frame(&m0);")
        H.append("    let vars: [f32; %d] = [%s];" % (max(s.nvars, 1), ", ".join(
            ["f32::from_bits(m0.peek32(R_A, %d))" % (4 * i) for i in range(s.nvars)] or ["0.0"])))
        H.append("    let mut exp_out = [0f32; %d];" % s.nout)
        H += ["    " + l for l in exp]
        for i in range(s.nout):
            H.append("    assert!(rel_out(f32::from_bits(m.peek32(R_D, %d)), exp_out[%d], %s), \"JIT output differs from the interpreter kernels\");"
                     % (4 * i, i, "true" if minmax else "false"))
        simp = " || ".join("%s != Choice::Both" % c for c in choices) or "false"
        for j, c in enumerate(choices):
            H.append("    assert!(m.peek8(R_B, %d) == (m0.peek8(R_B, %d) | %s as u8), \"choice byte %d\");" % (j, j, c, j))
        H.append("    assert!(m.peek8(R_B, %d) == m0.peek8(R_B, %d) && m.peek8(R_B, %d) == m0.peek8(R_B, %d), \"write past the choice array\");"
                 % (nch, nch, nch + 1, nch + 1))
        H.append("    assert!(m.peek8(R_C, 0) == (m0.peek8(R_C, 0) | ((%s) as u8)), \"simplify flag\");" % simp)
        H.append("    assert!(m.region_eq(&m0, R_A, %d), \"JIT code wrote to the input variables\");" % s.nvars)
        H.append("    kani::cover!(!exp_out[0].is_nan());")
        H.append("});")
        src.append("\n".join(H))
        table.append((s.sid, fn, s.nvars, nch, s.nout))
    # native dispatch table for lifter validation
    src.append("pub fn run_point(sid: usize, m: &mut M) -> bool {\n    match sid {")
    for sid, fn, *_ in table:
        src.append("        %d => %s(m)," % (sid, fn))
    src.append("        _ => return false,\n    }\n    true\n}")
    return "\n".join(src), names, problems, table


VALIDATE_BIN = os.path.join(VERIF, ".build", "native", "release", "validate")
SPECIALS = [0x00000000, 0x80000000, 0x3F800000, 0xBF800000, 0x3F000000, 0x40490FDB, 0x7FC00000, 0x7F800000, 0xFF800000,
            0x00000001, 0x7F7FFFFF, 0x3EFFFFFF, 0x4B000001, 0x4B7FFFFF, 0xC0200000, 0x3FC00000]


def input_vectors(nvars, rnd, count):
    vecs = []
    n = max(nvars, 1)
    for a in SPECIALS[:8]:
        for b in SPECIALS[:4]:
            vecs.append([a, b][:n] + [0x3F800000] * (n - 2))
    while len(vecs) < count:
        vecs.append([rnd.choice(SPECIALS) if rnd.random() < 0.4 else
                     struct.unpack("<I", struct.pack("<f", rnd.uniform(-8, 8)))[0] for _ in range(n)])
    return vecs[:count]


def validate_point(scs, table, count=40):
    """Lifter validation: the lifted functions, run natively on garbage
    register files, must reproduce the real JIT function's observable results
    on this CPU.  Returns (number of comparisons, list of disagreements)."""
    import random

    rnd = random.Random(seed() + 17)
    by_sid = {s.sid: s for s in scs}
    real_req, lift_req, keys = [], [], []
    for sid, fn, nvars, nch, nout in table:
        s = by_sid[sid]
        vecs = input_vectors(nvars, rnd, count)
        real_req.append(s.req(vecs))
        for k, v in enumerate(vecs):
            lift_req.append("%d %d %d %d %d|%s" % (sid, nvars, nch, nout, k, " ".join("0x%08x" % x for x in v)))
            keys.append((sid, k))
    p1 = subprocess.run([T.TVDUMP, "jitrun", "point"], input="\n".join(real_req) + "\n", capture_output=True, text=True)
    p2 = subprocess.run([VALIDATE_BIN, "point"], input="\n".join(lift_req) + "\n", capture_output=True, text=True)
    real = [json.loads(l) for l in p1.stdout.splitlines() if l.strip()]
    lifted = [json.loads(l) for l in p2.stdout.splitlines() if l.strip()]
    bad = []
    if len(real) != len(lifted) or len(real) != len(keys):
        return 0, ["validation produced %d real and %d lifted results for %d requests: %s %s" % (
            len(real), len(lifted), len(keys), p1.stderr[-200:], p2.stderr[-200:])]

    def norm(words):
        out = []
        for w in words.split():
            v = int(w, 16)
            if (v & 0x7F800000) == 0x7F800000 and (v & 0x7FFFFF):
                v = 0x7FC00000
            out.append(v)
        return out

    for (sid, k), a, b in zip(keys, real, lifted):
        if not b.get("found") or not b.get("frame_ok") or norm(a["out"]) != norm(b["out"]) or a["trace"] != b["trace"]:
            bad.append("scenario %s vector %d: real JIT %s / %s, lifted %s / %s frame_ok=%s" % (
                by_sid[sid].name, k, a["out"], a["trace"], b.get("out"), b.get("trace"), b.get("frame_ok")))
    return len(keys), bad


def generate(kinds, tier):
    """Regenerates /verif/kani/jitx/src/gen.rs for the given assembler kinds,
    builds the native validator and validates the lifted code against the real
    JIT function.  Returns (harness names, problems, evidence extras)."""
    from common import BUILD, ENV, run, sync_lockfile

    all_src, names, problems, extra = [], [], [], {}
    tables = {}
    scs_by_kind = {}
    for kind in kinds:
        scs = scenarios(kind, tier)
        problems += assemble(scs)
        gen = {"point": gen_point}.get(kind)
        if gen is None:
            problems.append("no generator for assembler kind %s" % kind)
            continue
        src, n, pr, table = gen(scs, tier)
        all_src.append(src)
        names += n
        problems += pr
        tables[kind] = table
        scs_by_kind[kind] = scs
        extra["scenarios_" + kind] = len(table)
    crate = os.path.join(VERIF, "kani", "jitx")
    with open(os.path.join(crate, "src", "gen.rs"), "w") as f:
        f.write("\n".join(all_src))
    sync_lockfile(crate)
    env = dict(ENV)
    env["CARGO_TARGET_DIR"] = os.path.join(BUILD, "native")
    rc, out, _ = run(["cargo", "build", "--release", "--bin", "validate"], cwd=crate, env=env, timeout=3600)
    if rc != 0:
        problems.append("native build of the lifted code failed: " + out[-1500:])
        return names, problems, extra
    total = 0
    for kind in tables:
        v = {"point": validate_point}[kind]
        n, bad = v(scs_by_kind[kind], tables[kind], 24 if tier == "quick" else 96)
        total += n
        problems += ["lifter validation: " + b for b in bad[:5]]
    extra["lifter_validation_runs"] = total
    return names, problems, extra
