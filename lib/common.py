"""Shared helpers for the /verif checks (paths, evidence, known findings)."""
import json
import os
import subprocess
import sys
import time

VERIF = os.path.dirname(os.path.dirname(os.path.abspath(__file__)))
REPO = os.environ.get("VERIF_REPO", "/repo")
BUILD = os.path.join(VERIF, ".build")
EVIDENCE = os.path.join(VERIF, "evidence")
REPLAYS = os.path.join(VERIF, "replays")
GUARD_CFG = "fidget_verif"

ENV = dict(os.environ)
ENV.update(
    {
        "CARGO_NET_OFFLINE": "true",
        "RUSTFLAGS": "--cfg %s" % GUARD_CFG,
        "CARGO_TERM_COLOR": "never",
    }
)


def seed():
    try:
        return int(os.environ.get("VERIF_SEED", "0"))
    except ValueError:
        return 0


def log(*a):
    print(*a, file=sys.stderr, flush=True)


def run(cmd, cwd=None, env=None, timeout=None, stdin=None):
    """Runs a command, returns (rc, stdout+stderr text, seconds)."""
    t0 = time.time()
    try:
        p = subprocess.run(
            cmd,
            cwd=cwd,
            env=env or ENV,
            stdout=subprocess.PIPE,
            stderr=subprocess.STDOUT,
            timeout=timeout,
            input=stdin,
            text=True,
            errors="replace",
        )
        return p.returncode, p.stdout, time.time() - t0
    except subprocess.TimeoutExpired as e:
        out = e.stdout or ""
        if isinstance(out, bytes):
            out = out.decode(errors="replace")
        return 124, out + "\n[timeout]", time.time() - t0


def sync_lockfile(crate_dir):
    """Harness crates start from /repo's Cargo.lock so every dependency
    resolves to the version in the offline registry cache (cargo prunes the
    copy to what the harness crate needs)."""
    import shutil

    shutil.copyfile(os.path.join(REPO, "Cargo.lock"), os.path.join(crate_dir, "Cargo.lock"))


class Finding:
    """One failed obligation."""

    def __init__(self, prop, key, what, detail=None, replay=None):
        self.prop = prop
        self.key = key  # stable identifier used by known_findings.json
        self.what = what  # one line
        self.detail = detail or {}
        self.replay = replay  # path of a replay artefact

    def to_json(self):
        return {
            "property": self.prop,
            "key": self.key,
            "what": self.what,
            "detail": self.detail,
            "replay": self.replay,
        }


def load_known():
    p = os.path.join(VERIF, "known_findings.json")
    if not os.path.exists(p):
        return {"findings": [], "fixed": []}
    with open(p) as f:
        return json.load(f)


def write_evidence(prop, tier, level, coverage, assumptions, wall_s, violations, extra=None):
    os.makedirs(EVIDENCE, exist_ok=True)
    ev = {
        "property_id": prop,
        "tier": tier,
        "seed": seed(),
        "level": level,
        "coverage": coverage,
        "assumptions": assumptions,
        "wall_s": round(wall_s, 2),
        "violations": violations,
    }
    if extra:
        ev.update(extra)
    p = os.path.join(EVIDENCE, "%s.json" % prop)
    tmp = p + ".tmp"
    with open(tmp, "w") as f:
        json.dump(ev, f, indent=1, sort_keys=False)
        f.write("\n")
    os.replace(tmp, p)
    return p


def repo_head():
    rc, out, _ = run(["git", "-C", REPO, "rev-parse", "HEAD"])
    return out.strip() if rc == 0 else "unknown"
