"""Thin wrapper around a persistent SMT solver process (z3 -in / cvc5)."""
import subprocess
import time

Z3 = "/usr/bin/z3"
CVC5 = "/usr/bin/cvc5"


class Solver:
    def __init__(self, which="z3", logic=None, timeout_ms=60000):
        self.which = which
        if which == "z3":
            cmd = [Z3, "-in", "-t:%d" % timeout_ms]
        elif which == "z3-new":
            cmd = ["z3-new", "-in", "-t:%d" % timeout_ms]
        else:
            cmd = [CVC5, "--lang", "smt2", "--incremental", "--tlimit-per=%d" % timeout_ms]
        self.p = subprocess.Popen(cmd, stdin=subprocess.PIPE, stdout=subprocess.PIPE, stderr=subprocess.STDOUT,
                                  text=True, bufsize=1 << 20)
        self.time_s = 0.0
        self.queries = 0
        self.send("(set-option :print-success false)\n")
        if logic:
            self.send("(set-logic %s)\n" % logic)
        else:
            self.send("(set-logic ALL)\n")

    def send(self, s):
        self.p.stdin.write(s)

    def check(self, script, get_model_vars=None):
        """Sends `script` (which must end with exactly one (check-sat)) and
        returns 'sat' | 'unsat' | 'unknown' | 'error:<line>'; optionally the
        model values of the given constants when sat."""
        t0 = time.time()
        self.queries += 1
        self.p.stdin.write(script)
        self.p.stdin.write('(echo "<<done>>")\n')
        self.p.stdin.flush()
        lines = []
        while True:
            line = self.p.stdout.readline()
            if not line:
                self.time_s += time.time() - t0
                return "error:solver died: " + " | ".join(lines[-3:]), None
            line = line.strip()
            if line in ("<<done>>", '"<<done>>"'):
                break
            if line:
                lines.append(line)
        self.time_s += time.time() - t0
        res = None
        for l in lines:
            if l.startswith("(error") or "error" in l.lower() and l.startswith("("):
                return "error:" + l, None
        for l in lines:
            if l in ("sat", "unsat", "unknown"):
                res = l
                break
        if res is None:
            return "error:no answer: " + " | ".join(lines[-3:]), None
        model = None
        if res == "sat" and get_model_vars:
            self.p.stdin.write("(get-value (%s))\n" % " ".join(get_model_vars))
            self.p.stdin.write('(echo "<<done>>")\n')
            self.p.stdin.flush()
            buf = []
            while True:
                line = self.p.stdout.readline()
                if not line:
                    break
                line = line.strip()
                if line in ("<<done>>", '"<<done>>"'):
                    break
                buf.append(line)
            model = parse_values(" ".join(buf))
        return res, model

    def close(self):
        try:
            self.p.stdin.write("(exit)\n")
            self.p.stdin.flush()
            self.p.wait(timeout=5)
        except Exception:
            self.p.kill()


def parse_values(s):
    """Parses `((x #x0000) (y #b01) ...)` into {name: int}."""
    import re

    out = {}
    for m in re.finditer(r"\(\s*([^\s()]+)\s+(#x[0-9a-fA-F]+|#b[01]+|\(_ bv(\d+) \d+\))\s*\)", s):
        v = m.group(2)
        if v.startswith("#x"):
            out[m.group(1)] = int(v[2:], 16)
        elif v.startswith("#b"):
            out[m.group(1)] = int(v[2:], 2)
        else:
            out[m.group(1)] = int(m.group(3))
    return out
