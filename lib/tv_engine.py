"""E-TV: translation validation of the real compiler passes.

`tvdump` (Rust, /verif/tv/tvdump, path-dependency on /repo) enumerates a
bounded program space and runs the real pass natively on every program; this
module turns each (input program, output program) pair into an SMT query
whose free variables are the *input values* and asks z3 whether the two can
differ.  `unsat` = equivalent for all inputs; `sat` = candidate, replayed
through the real evaluators before it is reported.
"""
import json
import multiprocessing as mp
import os
import random
import re
import struct
import subprocess
import time

from common import BUILD, ENV, REPLAYS, REPO, VERIF, Finding, log, run, seed, sync_lockfile
from smt import Solver

TVDUMP_DIR = os.path.join(VERIF, "tv", "tvdump")
TVDUMP = os.path.join(BUILD, "tv", "release", "vt-tvdump")

BV = "(_ BitVec 32)"
NANBV = "#x7fc00000"

PRELUDE_UF = """
(define-sort BV32 () (_ BitVec 32))
"""

PRELUDE_FP = """
(define-fun tofp ((x (_ BitVec 32))) (_ FloatingPoint 8 24) ((_ to_fp 8 24) x))
(define-fun isnan ((x (_ BitVec 32))) Bool (fp.isNaN (tofp x)))
(define-fun fzero () (_ FloatingPoint 8 24) ((_ to_fp 8 24) #x00000000))
(define-fun k_min ((a (_ BitVec 32)) (b (_ BitVec 32))) (_ BitVec 32)
  (ite (fp.lt (tofp a) (tofp b)) a (ite (fp.lt (tofp b) (tofp a)) b (ite (or (isnan a) (isnan b)) #x7fc00000 b))))
(define-fun k_max ((a (_ BitVec 32)) (b (_ BitVec 32))) (_ BitVec 32)
  (ite (fp.gt (tofp a) (tofp b)) a (ite (fp.gt (tofp b) (tofp a)) b (ite (or (isnan a) (isnan b)) #x7fc00000 b))))
(define-fun k_and ((a (_ BitVec 32)) (b (_ BitVec 32))) (_ BitVec 32)
  (ite (fp.eq (tofp a) fzero) a b))
(define-fun k_or ((a (_ BitVec 32)) (b (_ BitVec 32))) (_ BitVec 32)
  (ite (not (fp.eq (tofp a) fzero)) a b))
"""


def build_tvdump():
    sync_lockfile(TVDUMP_DIR)
    env = dict(ENV)
    env["CARGO_TARGET_DIR"] = os.path.join(BUILD, "tv")
    rc, out, secs = run(["cargo", "build", "--release"], cwd=TVDUMP_DIR, env=env, timeout=3600)
    if rc != 0:
        log(out[-4000:])
        return False
    return True


def repo_opcode_variants():
    """Variant names of SsaOp / RegOp parsed from the repo's source."""
    p = os.path.join(REPO, "fidget-core", "src", "compiler", "op.rs")
    with open(p) as f:
        s = f.read()
    m = re.search(r"pub enum \$name \{(.*?)\n\s*\$\(", s, re.S)
    body = m.group(1)
    names = re.findall(r"^\s+([A-Z]\w+)\(\$t", body, re.M)
    return names


def bv(n):
    n &= 0xFFFFFFFF
    # every NaN constant is the canonical quiet NaN ("NaN matching NaN"; the
    # tools print NaN immediates without their payload)
    if (n & 0x7F800000) == 0x7F800000 and (n & 0x007FFFFF) != 0:
        n = 0x7FC00000
    return "#x%08x" % n


def op_class(name):
    if name in ("Output", "Input", "CopyReg", "CopyImm", "Load", "Store"):
        return name
    if name.endswith("RegReg"):
        return "bin"
    if name.endswith("RegImm") or name.endswith("ImmReg"):
        return "imm"
    if name.endswith("Reg"):
        return "un"
    raise ValueError("unknown opcode class: " + name)


CHOICE_KIND = {"MinRegReg": "min", "MinRegImm": "min", "MaxRegReg": "max", "MaxRegImm": "max",
               "AndRegReg": "and", "AndRegImm": "and", "OrRegReg": "or", "OrRegImm": "or"}


_SEMTABLE = None


def semtable():
    """variant -> (class, base opcode, imm_lhs), printed by tvdump from the
    same table its reference evaluator uses."""
    global _SEMTABLE
    if _SEMTABLE is None:
        rc, out, _ = run([TVDUMP, "semtable"])
        tab = {}
        for item in json.loads(out.strip().splitlines()[-1]):
            k, v = item.split("=")
            c, base, lhs = v.split(":")
            tab[k] = (c, base, lhs == "1")
        _SEMTABLE = tab
    return _SEMTABLE


COMMUTATIVE_UF = {"Add", "Mul"}
CHOICE_BASE = {"Min": "min", "Max": "max", "And": "and", "Or": "or"}


class Enc:
    """Accumulates declarations/definitions for one query.

    mode 'variant': every RegOp/SsaOp variant is its own uninterpreted
    function (strictest, used for register allocation).
    mode 'base': variants are mapped to the base opcode and operand order they
    document (AddRegImm(a,k) = Add(a,k), SubImmReg(a,k) = Sub(k,a), ...);
    Add/Mul are commutative (operands sorted); with fp=True the choice
    opcodes Min/Max/And/Or are encoded exactly in the IEEE FP theory."""

    def __init__(self, fp=False, mode="variant"):
        self.fp = fp
        self.mode = mode
        self.lines = []
        self.ufs = set()
        self.consts = set()
        self.n = 0

    def fresh(self, prefix):
        self.n += 1
        return "%s_%d" % (prefix, self.n)

    def const(self, name):
        if name not in self.consts:
            self.consts.add(name)
            self.lines.append("(declare-const %s %s)" % (name, BV))
        return name

    def define(self, prefix, expr):
        # interned: one name per distinct expression
        if not hasattr(self, "_interned"):
            self._interned = {}
        nm = self._interned.get(expr)
        if nm is None:
            nm = self.fresh("t")
            self.lines.append("(define-fun %s () %s %s)" % (nm, BV, expr))
            self._interned[expr] = nm
        return nm

    def uf(self, name, arity):
        key = (name, arity)
        if key not in self.ufs:
            self.ufs.add(key)
            self.lines.append("(declare-fun %s (%s) %s)" % (name, " ".join([BV] * arity), BV))
        return name

    def base(self, base, a, b=None):
        """Term of a base opcode (context-level semantics)."""
        if b is None:
            return "(%s %s)" % (self.uf("g_" + base, 1), a)
        if self.fp and base in CHOICE_BASE:
            return "(k_%s %s %s)" % (CHOICE_BASE[base], a, b)
        if base in COMMUTATIVE_UF and b < a:
            # commutative: canonical operand order.  Definitions are interned
            # (structurally equal terms share one name, see `define`), so the
            # order is the same on both sides of a comparison.
            a, b = b, a
        return "(%s %s %s)" % (self.uf("g_" + base, 2), a, b)

    def sem(self, name, a, b=None):
        """SMT term of tape opcode `name` (imm ops: a=register operand,
        b=immediate)."""
        if self.mode == "variant":
            if self.fp and name in CHOICE_KIND:
                return "(k_%s %s %s)" % (CHOICE_KIND[name], a, b)
            if b is None:
                return "(%s %s)" % (self.uf("f_" + name, 1), a)
            return "(%s %s %s)" % (self.uf("f_" + name, 2), a, b)
        c, base, imm_lhs = semtable()[name]
        if c == "un":
            return self.base(base, a)
        if imm_lhs:
            return self.base(base, b, a)
        return self.base(base, a, b)


def sym_ssa(enc, pid, lines, inputs=None):
    """lines: SSA ops root-first (as stored).  Returns (outs{idx:term}, clauses).
    `inputs` optionally maps an input index to a variable name."""
    val = {}
    outs = {}
    clauses = []
    for line in reversed(lines):
        t = line.split()
        n = t[0]
        c = op_class(n)
        if c == "Output":
            outs[int(t[2])] = val[int(t[1])]
            continue
        o = int(t[1])
        if o in val:
            raise ValueError("SSA slot %d assigned twice" % o)
        if c == "Input":
            val[o] = enc.const(input_name(inputs, int(t[2])))
        elif c == "CopyImm":
            val[o] = bv(int(t[2], 16))
        elif c == "CopyReg":
            val[o] = val[int(t[2])]
        elif c == "un":
            val[o] = enc.define("s%d" % pid, enc.sem(n, val[int(t[2])]))
        elif c == "imm":
            a = val[int(t[2])]
            k = bv(int(t[3], 16))
            val[o] = enc.define("s%d" % pid, enc.sem(n, a, k))
            if n in CHOICE_KIND:
                clauses.append((CHOICE_KIND[n], a, k, val[o]))
        elif c == "bin":
            a = val[int(t[2])]
            b = val[int(t[3])]
            val[o] = enc.define("s%d" % pid, enc.sem(n, a, b))
            if n in CHOICE_KIND:
                clauses.append((CHOICE_KIND[n], a, b, val[o]))
        else:
            raise ValueError("bad SSA op " + line)
    return outs, clauses


def input_name(inputs, i):
    if inputs is None:
        return "x%d" % i
    if i not in inputs:
        return "x_unmapped_%d" % i
    return "x_" + inputs[i]


def sym_reg(enc, pid, lines, nregs=None, slot_count=None, inputs=None):
    """lines: register ops in evaluation order.  Returns (outs, clauses, facts)
    where facts are the concrete side conditions of the program."""
    slots = {}
    outs = {}
    clauses = []
    facts = {"max_reg": -1, "max_slot": -1, "min_mem": None, "bad": []}

    def rd(i):
        if i not in slots:
            slots[i] = enc.const("junk%d_%d" % (pid, i))
        return slots[i]

    def reg(i):
        facts["max_reg"] = max(facts["max_reg"], i)
        facts["max_slot"] = max(facts["max_slot"], i)
        if nregs is not None and i >= nregs:
            facts["bad"].append("register %d >= budget %d" % (i, nregs))
        return i

    def mem(i):
        facts["max_slot"] = max(facts["max_slot"], i)
        facts["min_mem"] = i if facts["min_mem"] is None else min(facts["min_mem"], i)
        if nregs is not None and i < nregs:
            facts["bad"].append("memory slot %d < budget %d" % (i, nregs))
        return i

    for line in lines:
        t = line.split()
        n = t[0]
        c = op_class(n)
        if c == "Output":
            outs[int(t[2])] = rd(reg(int(t[1])))
        elif c == "Input":
            slots[reg(int(t[1]))] = enc.const(input_name(inputs, int(t[2])))
        elif c == "CopyImm":
            slots[reg(int(t[1]))] = bv(int(t[2], 16))
        elif c == "CopyReg":
            slots[reg(int(t[1]))] = rd(reg(int(t[2])))
        elif c == "Load":
            slots[reg(int(t[1]))] = rd(mem(int(t[2])))
        elif c == "Store":
            slots[mem(int(t[2]))] = rd(reg(int(t[1])))
        elif c == "un":
            a = rd(reg(int(t[2])))
            slots[reg(int(t[1]))] = enc.define("r%d" % pid, enc.sem(n, a))
        elif c == "imm":
            a = rd(reg(int(t[2])))
            k = bv(int(t[3], 16))
            r = enc.define("r%d" % pid, enc.sem(n, a, k))
            slots[reg(int(t[1]))] = r
            if n in CHOICE_KIND:
                clauses.append((CHOICE_KIND[n], a, k, r))
        elif c == "bin":
            a = rd(reg(int(t[2])))
            b = rd(reg(int(t[3])))
            r = enc.define("r%d" % pid, enc.sem(n, a, b))
            slots[reg(int(t[1]))] = r
            if n in CHOICE_KIND:
                clauses.append((CHOICE_KIND[n], a, b, r))
        else:
            raise ValueError("bad reg op " + line)
    if slot_count is not None and facts["max_slot"] >= slot_count:
        facts["bad"].append("slot %d >= slot_count %d" % (facts["max_slot"], slot_count))
    return outs, clauses, facts


def neq_outputs(oa, ob):
    if set(oa) != set(ob):
        return "true"
    parts = ["(distinct %s %s)" % (oa[k], ob[k]) for k in sorted(oa)]
    if not parts:
        return "false"
    return "(or %s)" % " ".join(parts) if len(parts) > 1 else parts[0]


# ---------------------------------------------------------------------------
# worker pool

_solver = None


def _get_solver(fp):
    global _solver
    if _solver is None or _solver[0] != fp:
        if _solver is not None:
            _solver[1].close()
        s = Solver("z3")
        s.send(PRELUDE_FP if fp else "")
        _solver = (fp, s)
    return _solver[1]


def query(solver, enc, goal, model_vars=None, fallback_prelude=None):
    script = "(push 1)\n" + "\n".join(enc.lines) + "\n(assert %s)\n(check-sat)\n" % goal
    res, model = solver.check(script, model_vars)
    solver.send("(pop 1)\n")
    if res == "unknown" and fallback_prelude is not None:
        # the incremental solver gives up on some FP goals that a fresh,
        # non-incremental z3 (full preprocessing) decides in a second
        return standalone(fallback_prelude, enc, goal, model_vars)
    return res, model


def standalone(prelude, enc, goal, model_vars=None, timeout_s=120):
    import tempfile

    body = "(set-logic ALL)\n" + prelude + "\n".join(enc.lines) + "\n(assert %s)\n(check-sat)\n" % goal
    if model_vars:
        body += "(get-value (%s))\n" % " ".join(model_vars)
    with tempfile.NamedTemporaryFile("w", suffix=".smt2", delete=False) as f:
        f.write(body)
        path = f.name
    # a chain of solvers: the packaged z3, then the newer z3 build, then cvc5 (timeouts are wall-clock, so a loaded
    # machine can turn a 20 s proof into `unknown`; a second engine usually decides at once)
    out = "unknown"
    try:
        for cmd in (["/usr/bin/z3", "-T:%d" % timeout_s, path], ["z3-new", "-T:%d" % (2 * timeout_s), path],
                    ["/usr/bin/cvc5", "--lang", "smt2", "--produce-models", "--tlimit=%d" % (2000 * timeout_s), path]):
            try:
                p = subprocess.run(cmd, capture_output=True, text=True, timeout=2 * timeout_s + 30)
                out = p.stdout
            except (subprocess.TimeoutExpired, OSError):
                out = "unknown"
            first = out.splitlines()[0].strip() if out.splitlines() else "unknown"
            if first in ("sat", "unsat"):
                break
    finally:
        os.unlink(path)
    lines = out.splitlines()
    if any(l.startswith("(error") for l in lines) and not (lines and lines[0] == "unsat"):
        return "error:" + " ".join(lines[:2]), None
    res = lines[0].strip() if lines else "unknown"
    if res not in ("sat", "unsat", "unknown"):
        res = "unknown"
    model = None
    if res == "sat" and model_vars:
        from smt import parse_values

        model = parse_values(" ".join(lines[1:]))
    return res, model


def spill_case(rec):
    """Classifies which allocator situations a program exercised, recovered
    from the emitted Load/Store pattern (for the evidence)."""
    reg = rec["reg"]
    loads = sum(1 for l in reg if l.startswith("Load"))
    stores = sum(1 for l in reg if l.startswith("Store"))
    return "loads=%d,stores=%d" % (min(loads, 3), min(stores, 3))


def work_alloc(chunk):
    """chunk: list of records {id,n,ssa,reg,slots,...}.  One SMT query per
    record (UF encoding).  Returns list of result dicts."""
    solver = _get_solver(False)
    out = []
    t_before = solver.time_s
    for rec in chunk:
        r = {"id": rec["id"], "n": rec["n"], "set": rec["set"]}
        if rec["reg"] is None:
            # the allocator panicked: loud failure
            r["status"] = "panic"
            r["panic"] = rec.get("panic", "")
            out.append(r)
            continue
        enc = Enc(fp=False)
        try:
            oa, _ = sym_ssa(enc, 0, rec["ssa"])
            ob, _, facts = sym_reg(enc, 0, rec["reg"], nregs=rec["n"], slot_count=rec["slots"])
        except Exception as e:  # malformed program text
            r["status"] = "error"
            r["error"] = repr(e)
            out.append(r)
            continue
        goal = neq_outputs(oa, ob)
        xs = sorted(c for c in enc.consts if c.startswith("x"))
        res, model = query(solver, enc, goal, xs)
        r["status"] = res
        r["facts_bad"] = facts["bad"]
        r["case"] = spill_case(rec)
        if res == "sat":
            r["model"] = model
        out.append(r)
    return out, solver.time_s - t_before, len(chunk)


def special_vectors(nvars, model=None, rnd=None, count=24):
    sp = [0x00000000, 0x80000000, 0x3f800000, 0xbf800000, 0x3f000000, 0x40000000, 0x40400000, 0x7fc00000,
          0x7f800000, 0xff800000, 0x00800000, 0x00000001, 0x7f7fffff, 0x40490fdb, 0xc0490fdb, 0x3fc90fdb]
    vecs = []
    if model:
        vecs.append([model.get("x%d" % i, 0x3f800000) for i in range(max(nvars, 1))])
    rnd = rnd or random.Random(seed())
    for k in range(count):
        vecs.append([rnd.choice(sp) if k % 2 == 0 else struct.unpack("<I", struct.pack("<f", rnd.uniform(-4, 4)))[0]
                     for _ in range(max(nvars, 1))])
    return vecs


def fmt_req(rec, vecs=None):
    s = "%d %d %d %d %d|%s|%s" % (rec["id"], rec["n"], rec["slots"], rec["nvars"], rec["nout"],
                                  ";".join(rec["ssa"]), ";".join(rec["reg"]))
    if vecs is not None:
        s += "|" + ",".join(" ".join("0x%08x" % v for v in vec) for vec in vecs)
    return s


def native_eval(rec, vecs):
    """Runs the reference SSA semantics and the real VM evaluators on the
    given input vectors; returns the list of result dicts."""
    p = subprocess.run([TVDUMP, "eval"], input=fmt_req(rec, vecs) + "\n", stdout=subprocess.PIPE,
                       stderr=subprocess.PIPE, text=True, timeout=600)
    res = []
    for line in p.stdout.splitlines():
        try:
            res.append(json.loads(line))
        except Exception:
            pass
    return res


def stream_records(args, limit=None):
    p = subprocess.Popen([TVDUMP] + args, stdout=subprocess.PIPE, text=True, bufsize=1 << 20)
    n = 0
    for line in p.stdout:
        line = line.strip()
        if not line:
            continue
        yield json.loads(line)
        n += 1
        if limit and n >= limit:
            p.kill()
            break
    p.wait()


def chunks(it, size):
    buf = []
    for x in it:
        buf.append(x)
        if len(buf) >= size:
            yield buf
            buf = []
    if buf:
        yield buf


def replay(prop, rp, path):
    """`./check <prop> --replay <file>` for TV findings."""
    if not build_tvdump():
        return 2
    kind = rp.get("kind")
    if kind in ("alloc", "bytecode-alloc"):
        rec = rp["record"]
        res = native_eval(rec, rp["vectors"])
        bad = [r for r in res if not r.get("ok")]
        print(json.dumps(bad[:3], indent=1))
        if bad:
            print("VIOLATION property=%s replay=%s" % (prop, path))
            return 1
        return 0
    if kind == "shapes":
        import shapes_tv

        return shapes_tv.replay(prop, rp, path)
    import tv_units

    return tv_units.replay(prop, rp, path)


def sym_graph(enc, lines, roots):
    """Context graph as dumped by tvdump (`in V`, `const bits`, `un Op a`,
    `bin Op a b`): returns {root position: term}."""
    val = []
    for line in lines:
        t = line.split()
        if t[0] == "in":
            val.append(enc.const("x_" + t[1]))
        elif t[0] == "const":
            val.append(bv(int(t[1], 16)))
        elif t[0] == "un":
            val.append(enc.define("g", enc.base(t[1], val[int(t[2])])))
        elif t[0] == "bin":
            val.append(enc.define("g", enc.base(t[1], val[int(t[2])], val[int(t[3])])))
        else:
            raise ValueError("bad graph line " + line)
    return {i: val[r] for i, r in enumerate(roots)}


def parse_vars(vs):
    """['X=0','Y=1'] -> {index: name}; also returns problems found."""
    m = {}
    bad = []
    for item in vs:
        name, idx = item.rsplit("=", 1)
        name = name.replace("(", "_").replace(")", "_")
        idx = int(idx)
        if idx in m:
            bad.append("variables %s and %s share index %d" % (m[idx], name, idx))
        m[idx] = name
    if sorted(m) != list(range(len(m))):
        bad.append("variable indices %s are not 0..%d" % (sorted(m), len(m)))
    return m, bad


def work_flatten(chunk):
    """graph == SSA == register tape (N=3, 255), FP theory for the choice
    opcodes, plus the bookkeeping facts of the tape."""
    solver = _get_solver(True)
    out = []
    t0 = solver.time_s
    nq = 0
    for rec in chunk:
        r = {"id": rec["id"], "problems": [], "status": "unsat", "nq": 0}
        for vm in rec["vm"]:
            if "panic" in vm:
                r["status"] = "panic"
                r["problems"].append("flatten/allocate panicked: " + vm["panic"])
                continue
            inputs, bad = parse_vars(vm["vars"])
            r["problems"] += bad
            ssa = vm["ssa"]
            n_choice = sum(1 for l in ssa if l.split()[0] in CHOICE_KIND)
            n_out = sum(1 for l in ssa if l.startswith("Output"))
            if n_choice != vm["choice_count"]:
                r["problems"].append("choice_count %d but %d choice clauses" % (vm["choice_count"], n_choice))
            if n_out != vm["output_count"] or n_out != len(rec["roots"]):
                r["problems"].append("output_count %d, %d Output ops, %d roots" % (vm["output_count"], n_out, len(rec["roots"])))
            enc = Enc(fp=True, mode="base")
            try:
                og = sym_graph(enc, rec["graph"], rec["roots"])
                oa, _ = sym_ssa(enc, 0, ssa, inputs)
                ob, _, facts = sym_reg(enc, 0, vm["reg"], nregs=vm["n"], slot_count=vm["slots"], inputs=inputs)
            except Exception as e:
                r["status"] = "error"
                r["problems"].append(repr(e))
                continue
            r["problems"] += facts["bad"]
            xs = sorted(c for c in enc.consts if c.startswith("x"))
            goal = "(or %s %s)" % (neq_outputs(og, oa), neq_outputs(oa, ob))
            res, model = query(solver, enc, goal, xs)
            nq += 1
            if res == "sat":
                r["status"] = "sat"
                r["model"] = model
                r["n"] = vm["n"]
            elif res != "unsat" and r["status"] == "unsat":
                r["status"] = res
        r["nq"] = nq
        out.append(r)
    return out, solver.time_s - t0, nq


def premises(clauses, trace):
    ps = []
    for (kind, a, b, r), t in zip(clauses, trace):
        if t == "L":
            ps.append("(= %s %s)" % (r, a))
        elif t == "R":
            ps.append("(= %s %s)" % (r, b))
    return ps


def conj(ps):
    if not ps:
        return "true"
    return "(and %s)" % " ".join(ps) if len(ps) > 1 else ps[0]


def check_child(solver, parent, ptrace_list, child, r, label):
    """One simplification step: `ptrace_list` is a list of (vm record, trace)
    pairs whose premises are assumed (the chain so far); `child` must agree
    with the first parent's outputs.  Returns number of queries."""
    nq = 0
    enc = Enc(fp=True, mode="base")
    root = ptrace_list[0][0]
    inputs, bad = parse_vars(root["vars"])
    prem = []
    outs_root = None
    for i, (vm, tr) in enumerate(ptrace_list):
        o, cl = sym_ssa(enc, i, vm["ssa"], inputs)
        if outs_root is None:
            outs_root = o
        if len(cl) != len(tr):
            r["problems"].append("%s: trace length %d but %d clauses" % (label, len(tr), len(cl)))
            return nq
        prem += premises(cl, tr)
    # premises satisfiable? (vacuity witness; also decides whether an error
    # return / panic matters)
    res_p, _ = query(solver, enc, conj(prem))
    nq += 1
    r["premise_sat"] = r.get("premise_sat", 0) + (res_p == "sat")
    if "child" not in child:
        if res_p == "sat":
            r["problems"].append("%s: simplify failed (%s) for a trace some point produces" % (
                label, child.get("panic") or child.get("error")))
            r["status"] = "fail"
        return nq
    cvm = child["child"]
    cin, bad2 = parse_vars(cvm["vars"])
    if cvm["vars"] != root["vars"]:
        r["problems"].append("%s: child vars %s != parent vars %s" % (label, cvm["vars"], root["vars"]))
    if cvm["output_count"] != root["output_count"]:
        r["problems"].append("%s: child output_count %d != parent %d" % (label, cvm["output_count"], root["output_count"]))
    n_choice = sum(1 for l in cvm["ssa"] if l.split()[0] in CHOICE_KIND)
    if n_choice != cvm["choice_count"]:
        r["problems"].append("%s: child choice_count %d but %d clauses" % (label, cvm["choice_count"], n_choice))
    try:
        oc, _ = sym_ssa(enc, 90, cvm["ssa"], inputs)
        orr, _, facts = sym_reg(enc, 91, cvm["reg"], nregs=cvm["n"], slot_count=cvm["slots"], inputs=inputs)
    except Exception as e:
        r["problems"].append("%s: malformed child tape: %r" % (label, e))
        r["status"] = "fail"
        return nq
    r["problems"] += ["%s: %s" % (label, b) for b in facts["bad"]]
    xs = sorted(c for c in enc.consts if c.startswith("x"))
    goal = "(and %s (or %s %s))" % (conj(prem), neq_outputs(outs_root, oc), neq_outputs(oc, orr))
    res, model = query(solver, enc, goal, xs)
    nq += 1
    if res == "sat":
        r["status"] = "sat"
        r["model"] = model
        r["where"] = label
    elif res != "unsat":
        r["status"] = res
    return nq


def work_simplify(chunk):
    solver = _get_solver(True)
    out = []
    t0 = solver.time_s
    nq_total = 0
    for rec in chunk:
        r = {"id": rec["id"], "problems": [], "status": "unsat", "traces": 0}
        parent = rec["parent"]
        for ch in rec["children"]:
            r["traces"] += 1
            nq_total += check_child(solver, parent, [(parent, ch["trace"])], ch, r, "trace " + ch["trace"])
            if "child" in ch and "sub" in ch:
                for gc in ch["sub"]:
                    r["traces"] += 1
                    nq_total += check_child(solver, parent, [(parent, ch["trace"]), (ch["child"], gc["trace"])], gc, r,
                                            "trace %s then %s" % (ch["trace"], gc["trace"]))
        out.append(r)
    return out, solver.time_s - t0, nq_total


# ---------------------------------------------------------------------------
# Bytecode (C15): a decoder written from the module documentation only

BC_DOC_BINARY = {"Add", "Sub", "Mul", "Div", "Atan2", "Compare", "Mix", "Mod", "Min", "Max", "And", "Or"}
BC_DOC_UNARY = {"Neg", "Abs", "Recip", "Sqrt", "Square", "Floor", "Ceil", "Round", "Not", "Rand", "Sin", "Cos", "Tan",
                "Asin", "Acos", "Atan", "Exp", "Ln"}
# bytecode opcode name -> context base opcode name
BC_BASE = {"Atan2": "Atan"}


def decode_bytecode(words, optable, reg_count, mem_count):
    """Independent interpreter of the documented format.  Returns a list of
    abstract instructions and a list of format problems.

    Doc: list of u32 words, two per operation, forward evaluation order;
    first two words 0xFFFFFFFF 0x00000000, last two 0xFFFFFFFF 0xFFFFFFFF;
    word0 bytes: [opcode, out reg, first input reg, second input reg]; an
    input register byte of 0xFF means 'use the second word as an f32
    immediate'; Mem uses the 0xFF flag to tell load from store, second word
    is the memory slot."""
    problems = []
    if len(words) < 4 or len(words) % 2:
        return [], ["bad length %d" % len(words)]
    if words[0] != 0xFFFFFFFF or words[1] != 0:
        problems.append("missing start marker")
    if words[-2] != 0xFFFFFFFF or words[-1] != 0xFFFFFFFF:
        problems.append("missing end marker")
    names = {v: k for k, v in optable.items()}
    prog = []

    def reg(r, what):
        if r == 0xFF:
            problems.append("%s uses the reserved register 255" % what)
        elif r >= reg_count:
            problems.append("%s register %d >= reg_count %d" % (what, r, reg_count))
        return r

    for i in range(2, len(words) - 2, 2):
        w, imm = words[i], words[i + 1]
        op, o, a, b = w & 0xFF, (w >> 8) & 0xFF, (w >> 16) & 0xFF, (w >> 24) & 0xFF
        if op not in names:
            problems.append("unknown opcode %d" % op)
            continue
        n = names[op]
        if n == "Output":
            prog.append(("output", reg(o, n), imm))
        elif n == "Input":
            prog.append(("input", reg(o, n), imm))
        elif n == "Copy":
            if a == 0xFF:
                prog.append(("const", reg(o, n), imm))
            else:
                prog.append(("copy", reg(o, n), reg(a, n)))
        elif n == "Mem":
            if imm >= mem_count:
                problems.append("memory slot %d >= mem_count %d" % (imm, mem_count))
            if a == 0xFF and o != 0xFF:
                prog.append(("load", reg(o, n), imm))
            elif o == 0xFF and a != 0xFF:
                prog.append(("store", reg(a, n), imm))
            else:
                problems.append("Mem with ambiguous direction flags %02x %02x" % (o, a))
        elif n in BC_DOC_UNARY:
            prog.append(("un", BC_BASE.get(n, n), reg(o, n), reg(a, n)))
        elif n in BC_DOC_BINARY:
            base = BC_BASE.get(n, n)
            if a == 0xFF and b == 0xFF:
                problems.append("%s with two immediates" % n)
                continue
            la = ("imm", imm) if a == 0xFF else ("reg", reg(a, n))
            lb = ("imm", imm) if b == 0xFF else ("reg", reg(b, n))
            prog.append(("bin", base, reg(o, n), la, lb))
        else:
            problems.append("opcode %s is not covered by the documentation-based decoder" % n)
    return prog, problems


def sym_bytecode(enc, pid, prog, inputs=None):
    regs = {}
    mem = {}
    outs = {}

    def rd(r):
        if r not in regs:
            regs[r] = enc.const("bjunk%d_%d" % (pid, r))
        return regs[r]

    def opnd(x):
        return bv(x[1]) if x[0] == "imm" else rd(x[1])

    for ins in prog:
        k = ins[0]
        if k == "output":
            outs[ins[2]] = rd(ins[1])
        elif k == "input":
            regs[ins[1]] = enc.const(input_name(inputs, ins[2]))
        elif k == "const":
            regs[ins[1]] = bv(ins[2])
        elif k == "copy":
            regs[ins[1]] = rd(ins[2])
        elif k == "load":
            if ins[2] not in mem:
                mem[ins[2]] = enc.const("bmjunk%d_%d" % (pid, ins[2]))
            regs[ins[1]] = mem[ins[2]]
        elif k == "store":
            mem[ins[2]] = rd(ins[1])
        elif k == "un":
            regs[ins[2]] = enc.define("b%d" % pid, enc.base(ins[1], rd(ins[3])))
        elif k == "bin":
            regs[ins[2]] = enc.define("b%d" % pid, enc.base(ins[1], opnd(ins[3]), opnd(ins[4])))
    return outs


def work_bytecode(chunk):
    """chunk: list of (alloc record, bytecode record, optable)."""
    solver = _get_solver(True)
    out = []
    t0 = solver.time_s
    for rec, bc, optable in chunk:
        r = {"id": rec["id"], "problems": [], "status": "unsat"}
        if "words" not in bc:
            r["status"] = "fail"
            r["problems"].append("Bytecode::new failed: %s" % (bc.get("error") or bc.get("panic")))
            out.append(r)
            continue
        prog, problems = decode_bytecode(bc["words"], optable, bc["reg_count"], bc["mem_count"])
        r["problems"] += problems
        enc = Enc(fp=False, mode="base")
        try:
            oa, _, _ = sym_reg(enc, 0, rec["reg"])
            ob = sym_bytecode(enc, 1, prog)
        except Exception as e:
            r["status"] = "error"
            r["problems"].append(repr(e))
            out.append(r)
            continue
        xs = sorted(c for c in enc.consts if c.startswith("x"))
        res, model = query(solver, enc, neq_outputs(oa, ob), xs)
        r["status"] = res
        r["has_mem"] = any(i[0] in ("load", "store") for i in prog)
        if res == "sat":
            r["model"] = model
        out.append(r)
    return out, solver.time_s - t0, len(chunk)
