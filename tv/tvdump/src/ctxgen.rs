//! Context-level generators: enumerates expression graphs through the public
//! `Context` constructors and runs the real flatten / allocate / simplify
//! passes on them.
use crate::ops::*;
use crate::{jstr_list, panic_msg};
use fidget_core::compiler::{SsaOp, SsaTape};
use fidget_core::context::{BinaryOpcode, Context, Node, Op, UnaryOpcode};
use fidget_core::eval::{Function, MathFunction, TracingEvaluator};
use fidget_core::var::Var;
use fidget_core::vm::{Choice, GenericVmFunction, VmData, VmTrace};
use std::collections::HashMap;
use std::io::Write;

pub fn dispatch(mode: &str, args: &[String]) -> bool {
    match mode {
        "semtable" => semtable(),
        "flatten" => mode_flatten(args),
        "simplify" => mode_simplify(args),
        "construct" => mode_construct(args),
        _ => return false,
    }
    true
}

/// variant -> (class, base opcode, imm_lhs)
fn semtable() {
    let mut v = vec![];
    for u in UNARY {
        v.push(format!("{}=un:{:?}:0", u.name, u.sem));
    }
    for u in REGIMM {
        v.push(format!("{}=imm:{:?}:{}", u.name, u.sem, u.imm_lhs as u8));
    }
    for u in REGREG {
        v.push(format!("{}=bin:{:?}:0", u.name, u.sem));
    }
    println!("{}", jstr_list(&v));
}

// ---------------------------------------------------------------------------

#[derive(Copy, Clone, Debug, PartialEq)]
pub enum Leaf {
    X,
    Y,
    Z,
    C(u32), // constant bits
}

#[derive(Copy, Clone, Debug, PartialEq)]
pub enum Opnd {
    L(Leaf),
    N(usize), // earlier interior node
}

#[derive(Copy, Clone, Debug, PartialEq)]
pub enum GOp {
    Un(UnaryOpcode),
    Bin(BinaryOpcode),
}

#[derive(Clone, Debug)]
pub struct GNode {
    pub op: GOp,
    pub a: Opnd,
    pub b: Opnd,
}

fn build_leaf(ctx: &mut Context, l: Leaf) -> Node {
    match l {
        Leaf::X => ctx.x(),
        Leaf::Y => ctx.y(),
        Leaf::Z => ctx.z(),
        Leaf::C(b) => ctx.constant(f32::from_bits(b)),
    }
}

pub fn build_unary(ctx: &mut Context, op: UnaryOpcode, a: Node) -> Node {
    match op {
        UnaryOpcode::Neg => ctx.neg(a),
        UnaryOpcode::Abs => ctx.abs(a),
        UnaryOpcode::Recip => ctx.recip(a),
        UnaryOpcode::Sqrt => ctx.sqrt(a),
        UnaryOpcode::Square => ctx.square(a),
        UnaryOpcode::Floor => ctx.floor(a),
        UnaryOpcode::Ceil => ctx.ceil(a),
        UnaryOpcode::Round => ctx.round(a),
        UnaryOpcode::Sin => ctx.sin(a),
        UnaryOpcode::Cos => ctx.cos(a),
        UnaryOpcode::Tan => ctx.tan(a),
        UnaryOpcode::Asin => ctx.asin(a),
        UnaryOpcode::Acos => ctx.acos(a),
        UnaryOpcode::Atan => ctx.atan(a),
        UnaryOpcode::Exp => ctx.exp(a),
        UnaryOpcode::Ln => ctx.ln(a),
        UnaryOpcode::Not => ctx.not(a),
        UnaryOpcode::Rand => ctx.rand(a),
    }
    .unwrap()
}

pub fn build_binary(ctx: &mut Context, op: BinaryOpcode, a: Node, b: Node) -> Node {
    match op {
        BinaryOpcode::Add => ctx.add(a, b),
        BinaryOpcode::Sub => ctx.sub(a, b),
        BinaryOpcode::Mul => ctx.mul(a, b),
        BinaryOpcode::Div => ctx.div(a, b),
        BinaryOpcode::Atan => ctx.atan2(a, b),
        BinaryOpcode::Min => ctx.min(a, b),
        BinaryOpcode::Max => ctx.max(a, b),
        BinaryOpcode::Compare => ctx.compare(a, b),
        BinaryOpcode::Mod => ctx.modulo(a, b),
        BinaryOpcode::And => ctx.and(a, b),
        BinaryOpcode::Or => ctx.or(a, b),
        BinaryOpcode::Mix => ctx.mix(a, b),
    }
    .unwrap()
}

/// Builds the graph through the public constructors; returns the node of each
/// interior position
pub fn build_graph(ctx: &mut Context, g: &[GNode]) -> Vec<Node> {
    let mut nodes: Vec<Node> = vec![];
    for n in g {
        let get = |ctx: &mut Context, o: Opnd, nodes: &Vec<Node>| match o {
            Opnd::L(l) => build_leaf(ctx, l),
            Opnd::N(i) => nodes[i],
        };
        let a = get(ctx, n.a, &nodes);
        let node = match n.op {
            GOp::Un(u) => build_unary(ctx, u, a),
            GOp::Bin(b) => {
                let bb = get(ctx, n.b, &nodes);
                build_binary(ctx, b, a, bb)
            }
        };
        nodes.push(node);
    }
    nodes
}

/// Reads the graph the `Context` actually holds (after constructor rewrites)
/// reachable from `roots`: returns (lines, root ids)
pub fn dump_graph(ctx: &Context, roots: &[Node]) -> (Vec<String>, Vec<usize>) {
    let mut ids: HashMap<Node, usize> = HashMap::new();
    let mut lines = vec![];
    fn visit(ctx: &Context, n: Node, ids: &mut HashMap<Node, usize>, lines: &mut Vec<String>) -> usize {
        if let Some(&i) = ids.get(&n) {
            return i;
        }
        let op = *ctx.get_op(n).unwrap();
        let line = match op {
            Op::Input(v) => format!("in {}", v),
            Op::Const(c) => format!("const {}", fmt_f32(c.0)),
            Op::Unary(u, a) => {
                let a = visit(ctx, a, ids, lines);
                format!("un {:?} {}", u, a)
            }
            Op::Binary(b, x, y) => {
                let x = visit(ctx, x, ids, lines);
                let y = visit(ctx, y, ids, lines);
                format!("bin {:?} {} {}", b, x, y)
            }
        };
        let i = lines.len();
        lines.push(line);
        ids.insert(n, i);
        i
    }
    let r: Vec<usize> = roots.iter().map(|&n| visit(ctx, n, &mut ids, &mut lines)).collect();
    (lines, r)
}

fn vm_dump<const N: usize>(ctx: &Context, roots: &[Node]) -> Result<String, String> {
    let r = std::panic::catch_unwind(std::panic::AssertUnwindSafe(|| {
        let d = VmData::<N>::new(ctx, roots).unwrap();
        let ssa: Vec<String> = d.verif_ssa().tape.iter().map(fmt_ssa).collect();
        let reg: Vec<String> = d.iter_asm().map(|o| fmt_reg(&o)).collect();
        let mut vars: Vec<String> = d.vars.iter().map(|(v, i)| format!("{}={}", v, i)).collect();
        vars.sort();
        format!(
            "{{\"n\":{},\"ssa\":{},\"reg\":{},\"slots\":{},\"vars\":{},\"choice_count\":{},\"output_count\":{},\"len\":{}}}",
            N,
            jstr_list(&ssa),
            jstr_list(&reg),
            d.slot_count(),
            jstr_list(&vars),
            d.choice_count(),
            d.output_count(),
            d.len()
        )
    }));
    r.map_err(panic_msg)
}

pub const CONSTS: [u32; 2] = [0x3fc00000, 0x00000000]; // 1.5, 0.0

fn operands(i: usize, leaves: &[Leaf]) -> Vec<Opnd> {
    let mut v: Vec<Opnd> = leaves.iter().map(|&l| Opnd::L(l)).collect();
    for j in 0..i {
        v.push(Opnd::N(j));
    }
    v
}

fn enum_graphs(k: usize, ops: &[GOp], leaves: &[Leaf], f: &mut impl FnMut(&[GNode])) {
    fn rec(k: usize, ops: &[GOp], leaves: &[Leaf], cur: &mut Vec<GNode>, f: &mut impl FnMut(&[GNode])) {
        let i = cur.len();
        if i == k {
            f(cur);
            return;
        }
        let opnds = operands(i, leaves);
        for &op in ops {
            match op {
                GOp::Un(_) => {
                    for &a in &opnds {
                        cur.push(GNode { op, a, b: a });
                        rec(k, ops, leaves, cur, f);
                        cur.pop();
                    }
                }
                GOp::Bin(_) => {
                    for &a in &opnds {
                        for &b in &opnds {
                            cur.push(GNode { op, a, b });
                            rec(k, ops, leaves, cur, f);
                            cur.pop();
                        }
                    }
                }
            }
        }
    }
    rec(k, ops, leaves, &mut vec![], f);
}

fn mode_flatten(args: &[String]) {
    // flatten <kmin> <kmax> <stride> <offset> <opset>
    let kmin: usize = args[0].parse().unwrap();
    let kmax: usize = args[1].parse().unwrap();
    let stride: u64 = args.get(2).map(|s| s.parse().unwrap()).unwrap_or(1);
    let offset: u64 = args.get(3).map(|s| s.parse().unwrap()).unwrap_or(0);
    let opset = args.get(4).map(|s| s.as_str()).unwrap_or("small");
    // optional replay: <id> <x,y;x,y;...> (hex bits): evaluate that record's
    // graph with Context::eval and with the real VM evaluators
    let replay_id: Option<u64> = args.get(5).map(|s| s.parse().unwrap());
    let replay_vecs: Vec<Vec<f32>> = args
        .get(6)
        .map(|s| s.split(';').map(|v| v.split(',').map(parse_f).collect()).collect())
        .unwrap_or_default();
    let ops: Vec<GOp> = match opset {
        "small" => vec![
            GOp::Un(UnaryOpcode::Neg),
            GOp::Bin(BinaryOpcode::Add),
            GOp::Bin(BinaryOpcode::Sub),
            GOp::Bin(BinaryOpcode::Min),
            GOp::Bin(BinaryOpcode::And),
        ],
        _ => {
            let mut v: Vec<GOp> = UNARY.iter().map(|u| GOp::Un(u.sem)).collect();
            for b in [
                BinaryOpcode::Add,
                BinaryOpcode::Sub,
                BinaryOpcode::Mul,
                BinaryOpcode::Div,
                BinaryOpcode::Atan,
                BinaryOpcode::Min,
                BinaryOpcode::Max,
                BinaryOpcode::Compare,
                BinaryOpcode::Mod,
                BinaryOpcode::And,
                BinaryOpcode::Or,
                BinaryOpcode::Mix,
            ] {
                v.push(GOp::Bin(b));
            }
            v
        }
    };
    let leaves_small = [Leaf::X, Leaf::Y, Leaf::C(CONSTS[0])];
    let leaves_zero = [Leaf::X, Leaf::Y, Leaf::C(CONSTS[0]), Leaf::C(CONSTS[1])];
    let stdout = std::io::stdout();
    let mut out = std::io::BufWriter::new(stdout.lock());
    let mut id = 0u64;
    let mut count = 0u64;
    for k in kmin..=kmax {
        let leaves: &[Leaf] = if k <= 2 { &leaves_zero } else { &leaves_small };
        let mut f = |g: &[GNode]| {
            count += 1;
            if stride > 1 && (count % stride) != (offset % stride) {
                return;
            }
            // root sets: the last node; plus (for small graphs) every pair
            // (last, j) and the triple with a duplicate and a constant root
            let mut rootsets: Vec<Vec<Opnd>> = vec![vec![Opnd::N(k - 1)]];
            if k <= 2 {
                for j in 0..k {
                    rootsets.push(vec![Opnd::N(k - 1), Opnd::N(j)]);
                }
                rootsets.push(vec![Opnd::N(k - 1), Opnd::L(Leaf::C(CONSTS[0])), Opnd::N(k - 1)]);
                rootsets.push(vec![Opnd::L(Leaf::X), Opnd::N(k - 1)]);
            } else if count % 5 == 0 {
                rootsets.push(vec![Opnd::N(k - 1), Opnd::N(k - 2)]);
                rootsets.push(vec![Opnd::N(0), Opnd::N(k - 1), Opnd::L(Leaf::C(CONSTS[0]))]);
            }
            for rs in rootsets {
                let mut ctx = Context::new();
                let nodes = build_graph(&mut ctx, g);
                let roots: Vec<Node> = rs
                    .iter()
                    .map(|o| match *o {
                        Opnd::L(l) => build_leaf(&mut ctx, l),
                        Opnd::N(i) => nodes[i],
                    })
                    .collect();
                let (glines, groots) = dump_graph(&ctx, &roots);
                id += 1;
                if let Some(rid) = replay_id {
                    if rid == id {
                        replay_graph(&ctx, &roots, &replay_vecs);
                    }
                    continue;
                }
                let gr: Vec<String> = groots.iter().map(|r| r.to_string()).collect();
                let vm3 = vm_dump::<3>(&ctx, &roots);
                let vm255 = vm_dump::<255>(&ctx, &roots);
                let f = |r: Result<String, String>| match r {
                    Ok(s) => s,
                    Err(e) => format!("{{\"panic\":\"{}\"}}", e),
                };
                writeln!(
                    out,
                    "{{\"id\":{},\"k\":{},\"graph\":{},\"roots\":[{}],\"vm\":[{},{}]}}",
                    id,
                    k,
                    jstr_list(&glines),
                    gr.join(","),
                    f(vm3),
                    f(vm255)
                )
                .unwrap();
            }
        };
        enum_graphs(k, &ops, leaves, &mut f);
    }
}

fn same(a: f32, b: f32) -> bool {
    (a.is_nan() && b.is_nan()) || a.to_bits() == b.to_bits()
}

/// Public-API replay: `Context::eval` on each root vs the real VM point and
/// float-slice evaluators at budgets 3 and 255
fn replay_graph(ctx: &Context, roots: &[Node], vecs: &[Vec<f32>]) {
    use fidget_core::eval::BulkEvaluator;
    for v in vecs {
        let mut m = HashMap::new();
        m.insert(Var::X, v[0]);
        m.insert(Var::Y, v[1]);
        m.insert(Var::Z, *v.get(2).unwrap_or(&0.0));
        let want: Vec<f32> = roots.iter().map(|&r| ctx.eval(r, &m).unwrap()).collect();
        macro_rules! go {
            ($n:expr) => {{
                let f = GenericVmFunction::<$n>::new(ctx, roots).unwrap();
                let mut args = vec![0.0f32; f.vars().len()];
                for (var, i) in f.vars().iter() {
                    args[i] = m[&var];
                }
                let t = f.point_tape(Default::default());
                let mut e = GenericVmFunction::<$n>::new_point_eval();
                let (o, _) = e.eval(&t, &args).unwrap();
                let o = o.to_vec();
                let t = f.float_slice_tape(Default::default());
                let mut e = GenericVmFunction::<$n>::new_float_slice_eval();
                let cols: Vec<Vec<f32>> = args.iter().map(|&a| vec![a, a]).collect();
                let b = e.eval(&t, &cols).unwrap();
                let mut o2 = vec![];
                for i in 0..b.len() {
                    o2.push(b[i][1]);
                }
                (o, o2)
            }};
        }
        let (p3, s3) = go!(3);
        let (p255, s255) = go!(255);
        let eq = |a: &[f32]| a.len() == want.len() && a.iter().zip(&want).all(|(x, y)| same(*x, *y));
        let ok = eq(&p3) && eq(&s3) && eq(&p255) && eq(&s255);
        let f = |v: &[f32]| v.iter().map(|x| fmt_f32(*x)).collect::<Vec<_>>().join(" ");
        println!(
            "{{\"ok\":{},\"vars\":\"{}\",\"context_eval\":\"{}\",\"vm3_point\":\"{}\",\"vm3_slice\":\"{}\",\"vm255_point\":\"{}\"}}",
            ok, f(v), f(&want), f(&p3), f(&s3), f(&p255)
        );
    }
}

// ---------------------------------------------------------------------------
// simplify

fn trace_str(t: &[Choice]) -> String {
    t.iter()
        .map(|c| match c {
            Choice::Left => 'L',
            Choice::Right => 'R',
            Choice::Both => 'B',
            Choice::Unknown => 'U',
        })
        .collect()
}

fn all_traces(k: usize) -> Vec<Vec<Choice>> {
    let mut out = vec![vec![]];
    for _ in 0..k {
        let mut next = vec![];
        for t in &out {
            for c in [Choice::Left, Choice::Right, Choice::Both] {
                let mut t2: Vec<Choice> = t.clone();
                t2.push(c);
                next.push(t2);
            }
        }
        out = next;
    }
    out
}

fn dump_vm<const N: usize>(d: &VmData<N>) -> String {
    let ssa: Vec<String> = d.verif_ssa().tape.iter().map(fmt_ssa).collect();
    let reg: Vec<String> = d.iter_asm().map(|o| fmt_reg(&o)).collect();
    let mut vars: Vec<String> = d.vars.iter().map(|(v, i)| format!("{}={}", v, i)).collect();
    vars.sort();
    format!(
        "{{\"n\":{},\"ssa\":{},\"reg\":{},\"slots\":{},\"vars\":{},\"choice_count\":{},\"output_count\":{}}}",
        N,
        jstr_list(&ssa),
        jstr_list(&reg),
        d.slot_count(),
        jstr_list(&vars),
        d.choice_count(),
        d.output_count()
    )
}

/// Simplifies `parent` (budget N) into budget M with every trace; with
/// `reuse`, the storage/workspace of the previous simplification is reused
fn simplify_all<const N: usize, const M: usize>(
    parent: &GenericVmFunction<N>,
    depth: usize,
    out: &mut impl Write,
    reuse: bool,
) -> String {
    let k = parent.choice_count();
    let mut results = vec![];
    let mut ws = Default::default();
    let mut storage: Option<VmData<M>> = None;
    if reuse {
        // give the workspace and the storage a history: a larger function with
        // many live values (it spills at small budgets) was simplified before
        storage = Some(dirty_history::<M>(&mut ws));
    }
    for t in all_traces(k) {
        let trace = VmTrace::from(t.clone());
        let st = if reuse { storage.take().unwrap_or_default() } else { Default::default() };
        if !reuse {
            ws = Default::default();
        }
        let r = std::panic::catch_unwind(std::panic::AssertUnwindSafe(|| parent.simplify_with::<M>(&trace, st, &mut ws)));
        match r {
            Ok(Ok(child)) => {
                let mut s = format!("{{\"trace\":\"{}\",\"child\":{}", trace_str(&t), dump_vm(child.data()));
                if depth > 1 && child.choice_count() > 0 && child.choice_count() <= 2 {
                    let sub = simplify_all::<M, M>(&child, depth - 1, out, reuse);
                    s += &format!(",\"sub\":{}", sub);
                }
                s += "}";
                results.push(s);
                if reuse {
                    storage = child.recycle();
                }
            }
            Ok(Err(e)) => results.push(format!("{{\"trace\":\"{}\",\"error\":\"{}\"}}", trace_str(&t), e)),
            Err(p) => {
                results.push(format!("{{\"trace\":\"{}\",\"panic\":\"{}\"}}", trace_str(&t), panic_msg(p)));
                ws = Default::default();
            }
        }
    }
    format!("[{}]", results.join(","))
}

fn mode_simplify(args: &[String]) {
    // simplify <kmin> <kmax> <stride> <offset> <n->m> <reuse>
    let kmin: usize = args[0].parse().unwrap();
    let kmax: usize = args[1].parse().unwrap();
    let stride: u64 = args.get(2).map(|s| s.parse().unwrap()).unwrap_or(1);
    let offset: u64 = args.get(3).map(|s| s.parse().unwrap()).unwrap_or(0);
    let budget = args.get(4).map(|s| s.as_str()).unwrap_or("255-255").to_string();
    let reuse = args.get(5).map(|s| s.starts_with("reuse")).unwrap_or(false);
    let spill_only = reuse && args.get(5).map(|s| s == "reuse-spill").unwrap_or(false);
    let replay_id: Option<u64> = args.get(6).map(|s| s.parse().unwrap());
    let replay_vecs: Vec<Vec<f32>> = args
        .get(7)
        .map(|s| s.split(';').map(|v| v.split(',').map(parse_f).collect()).collect())
        .unwrap_or_default();
    let ops = vec![
        GOp::Un(UnaryOpcode::Neg),
        GOp::Bin(BinaryOpcode::Sub),
        GOp::Bin(BinaryOpcode::Min),
        GOp::Bin(BinaryOpcode::Max),
        GOp::Bin(BinaryOpcode::And),
        GOp::Bin(BinaryOpcode::Or),
    ];
    let leaves_arr = [Leaf::X, Leaf::Y, Leaf::C(CONSTS[0])];
    let leaves: &[Leaf] = &leaves_arr;
    let stdout = std::io::stdout();
    let mut out = std::io::BufWriter::new(stdout.lock());
    let mut id = 0u64;
    let mut count = 0u64;
    if args.get(5).map(|s| s == "reuse-wide").unwrap_or(false) {
        // parents with many simultaneously live values (they spill at a
        // budget of 3): n terms t_i = x*c_i - y, all computed before a
        // right-nested reduction with operators taken from a base-3 pattern
        for n in 3..=5usize {
            for pat in 0..3usize.pow(n as u32 - 1) {
                let mut ctx = Context::new();
                let x = ctx.x();
                let y = ctx.y();
                let terms: Vec<Node> = (0..n)
                    .map(|i| {
                        let m = ctx.mul(x, (i + 2) as f32).unwrap();
                        ctx.sub(m, y).unwrap()
                    })
                    .collect();
                let mut acc = terms[n - 1];
                let mut pp = pat;
                for i in (0..n - 1).rev() {
                    acc = match pp % 3 {
                        0 => ctx.min(terms[i], acc).unwrap(),
                        1 => ctx.max(terms[i], acc).unwrap(),
                        _ => ctx.sub(terms[i], acc).unwrap(),
                    };
                    pp /= 3;
                }
                // the terms stay live: they are also summed after the reduction
                let mut sum = terms[0];
                for t in &terms[1..] {
                    sum = ctx.add(sum, *t).unwrap();
                }
                let roots = [acc, sum];
                id += 1;
                let p = GenericVmFunction::<3>::new(&ctx, &roots).unwrap();
                if p.choice_count() == 0 || p.choice_count() > 4 {
                    continue;
                }
                if let Some(rid) = replay_id {
                    if rid == id {
                        replay_reuse(&p, &replay_vecs, args.get(8).map(|s| s.as_str()).unwrap_or(""));
                    }
                    continue;
                }
                let parent = dump_vm(p.data());
                let res = simplify_all::<3, 3>(&p, 1, &mut out, true);
                writeln!(out, "{{\"id\":{},\"k\":{},\"budget\":\"3-3\",\"reuse\":true,\"parent\":{},\"children\":{}}}", id, n, parent, res).unwrap();
            }
        }
        return;
    }
    for k in kmin..=kmax {
        let mut f = |g: &[GNode]| {
            // only graphs with at least one choice op are interesting
            if !g.iter().any(|n| {
                matches!(
                    n.op,
                    GOp::Bin(BinaryOpcode::Min) | GOp::Bin(BinaryOpcode::Max) | GOp::Bin(BinaryOpcode::And) | GOp::Bin(BinaryOpcode::Or)
                )
            }) {
                return;
            }
            count += 1;
            if stride > 1 && (count % stride) != (offset % stride) {
                return;
            }
            let mut rootsets: Vec<Vec<usize>> = vec![vec![k - 1]];
            if k >= 2 {
                rootsets.push(vec![k - 1, k - 2]);
            }
            for rs in rootsets {
                let mut ctx = Context::new();
                let nodes = build_graph(&mut ctx, g);
                let roots: Vec<Node> = rs.iter().map(|&i| nodes[i]).collect();
                id += 1;
                macro_rules! go {
                    ($n:expr, $m:expr) => {{
                        let p = GenericVmFunction::<$n>::new(&ctx, &roots).unwrap();
                        if p.choice_count() == 0 || p.choice_count() > 4 {
                            return;
                        }
                        if spill_only && !p.data().iter_asm().any(|o| matches!(o, fidget_core::compiler::RegOp::Load(..))) {
                            return;
                        }
                        if let Some(rid) = replay_id {
                            if rid == id {
                                replay_simplify::<$n, $m>(&p, &replay_vecs);
                            }
                            continue;
                        }
                        let parent = dump_vm(p.data());
                        let res = simplify_all::<$n, $m>(&p, 2, &mut out, reuse);
                        writeln!(out, "{{\"id\":{},\"k\":{},\"budget\":\"{}\",\"reuse\":{},\"parent\":{},\"children\":{}}}", id, k, budget, reuse, parent, res).unwrap();
                    }};
                }
                match budget.as_str() {
                    "255-255" => go!(255, 255),
                    "255-3" => go!(255, 3),
                    "3-255" => go!(3, 255),
                    "3-3" => go!(3, 3),
                    _ => panic!("bad budget"),
                }
            }
        };
        enum_graphs(k, &ops, leaves, &mut f);
    }
}


/// Public-API replay of C04: evaluate the parent at `x` with the tracing
/// point evaluator, simplify with the trace it returns, and compare parent
/// and child at `x` under the point and float-slice evaluators.
fn replay_simplify<const N: usize, const M: usize>(p: &GenericVmFunction<N>, vecs: &[Vec<f32>]) {
    use fidget_core::eval::BulkEvaluator;
    for v in vecs {
        let mut args = vec![0.0f32; p.vars().len()];
        for (var, i) in p.vars().iter() {
            args[i] = match var {
                Var::X => v[0],
                Var::Y => v[1],
                _ => *v.get(2).unwrap_or(&0.0),
            };
        }
        let t = p.point_tape(Default::default());
        let mut e = GenericVmFunction::<N>::new_point_eval();
        let (o, tr) = e.eval(&t, &args).unwrap();
        let want = o.to_vec();
        let Some(tr) = tr else {
            println!("{{\"ok\":true,\"note\":\"no trace at this point\"}}");
            continue;
        };
        let tr = tr.clone();
        let r = std::panic::catch_unwind(std::panic::AssertUnwindSafe(|| {
            p.simplify_with::<M>(&tr, Default::default(), &mut Default::default())
        }));
        let f = |v: &[f32]| v.iter().map(|x| fmt_f32(*x)).collect::<Vec<_>>().join(" ");
        match r {
            Ok(Ok(c)) => {
                let t = c.point_tape(Default::default());
                let mut e = GenericVmFunction::<M>::new_point_eval();
                let (o, _) = e.eval(&t, &args).unwrap();
                let got = o.to_vec();
                let t = c.float_slice_tape(Default::default());
                let mut e = GenericVmFunction::<M>::new_float_slice_eval();
                let cols: Vec<Vec<f32>> = args.iter().map(|&a| vec![a, a]).collect();
                let b = e.eval(&t, &cols).unwrap();
                let mut got2 = vec![];
                for i in 0..b.len() {
                    got2.push(b[i][1]);
                }
                let eq = |a: &[f32]| a.len() == want.len() && a.iter().zip(&want).all(|(x, y)| same(*x, *y));
                let ok = eq(&got) && eq(&got2) && c.vars().len() == p.vars().len() && c.output_count() == p.output_count();
                println!(
                    "{{\"ok\":{},\"vars\":\"{}\",\"trace\":\"{}\",\"parent\":\"{}\",\"child_point\":\"{}\",\"child_slice\":\"{}\"}}",
                    ok, f(&args), trace_str(tr.as_slice()), f(&want), f(&got), f(&got2)
                );
            }
            Ok(Err(e)) => println!("{{\"ok\":false,\"vars\":\"{}\",\"trace\":\"{}\",\"error\":\"{}\"}}", f(&args), trace_str(tr.as_slice()), e),
            Err(pn) => println!("{{\"ok\":false,\"vars\":\"{}\",\"trace\":\"{}\",\"panic\":\"{}\"}}", f(&args), trace_str(tr.as_slice()), panic_msg(pn)),
        }
    }
}


// ---------------------------------------------------------------------------
// C12: constructors (constant folding, identities, reordering, dedup)

#[derive(Clone, Debug)]
enum Ex {
    L(Leaf),
    U(UnaryOpcode, Box<Ex>),
    B(BinaryOpcode, Box<Ex>, Box<Ex>),
}

fn ex_build(ctx: &mut Context, e: &Ex) -> Node {
    match e {
        Ex::L(l) => build_leaf(ctx, *l),
        Ex::U(op, a) => {
            let a = ex_build(ctx, a);
            build_unary(ctx, *op, a)
        }
        Ex::B(op, a, b) => {
            let a = ex_build(ctx, a);
            let b = ex_build(ctx, b);
            build_binary(ctx, *op, a, b)
        }
    }
}

/// The expression as written, in the same line format as `dump_graph`
fn ex_dump(e: &Ex, lines: &mut Vec<String>) -> usize {
    let line = match e {
        Ex::L(Leaf::X) => "in X".to_string(),
        Ex::L(Leaf::Y) => "in Y".to_string(),
        Ex::L(Leaf::Z) => "in Z".to_string(),
        Ex::L(Leaf::C(b)) => format!("const 0x{:08x}", b),
        Ex::U(op, a) => {
            let a = ex_dump(a, lines);
            format!("un {:?} {}", op, a)
        }
        Ex::B(op, a, b) => {
            let a = ex_dump(a, lines);
            let b = ex_dump(b, lines);
            format!("bin {:?} {} {}", op, a, b)
        }
    };
    lines.push(line);
    lines.len() - 1
}

const SPECIAL: [u32; 11] = [
    0x00000000, 0x80000000, 0x3f800000, 0xbf800000, 0x40000000, 0x3f000000, 0x40400000, 0x7f800000, 0xff800000, 0x7fc00000,
    0x00000001,
];

fn mode_construct(args: &[String]) {
    // construct <level> <stride> <offset>
    let level: usize = args[0].parse().unwrap();
    let stride: u64 = args.get(1).map(|s| s.parse().unwrap()).unwrap_or(1);
    let offset: u64 = args.get(2).map(|s| s.parse().unwrap()).unwrap_or(0);
    let replay_id: Option<u64> = args.get(3).map(|s| s.parse().unwrap());
    let replay_vecs: Vec<Vec<f32>> = args
        .get(4)
        .map(|s| s.split(';').map(|v| v.split(',').map(parse_f).collect()).collect())
        .unwrap_or_default();
    let stdout = std::io::stdout();
    let mut out = std::io::BufWriter::new(stdout.lock());
    let mut id = 0u64;
    let mut atoms: Vec<Ex> = vec![Ex::L(Leaf::X), Ex::L(Leaf::Y)];
    for c in SPECIAL {
        atoms.push(Ex::L(Leaf::C(c)));
    }
    let bins = [
        BinaryOpcode::Add,
        BinaryOpcode::Sub,
        BinaryOpcode::Mul,
        BinaryOpcode::Div,
        BinaryOpcode::Min,
        BinaryOpcode::Max,
        BinaryOpcode::And,
        BinaryOpcode::Or,
        BinaryOpcode::Compare,
        BinaryOpcode::Atan,
        BinaryOpcode::Mod,
        BinaryOpcode::Mix,
    ];
    let mut cases: Vec<Ex> = vec![];
    if level == 1 {
        for u in UNARY {
            let libm = matches!(
                u.sem,
                UnaryOpcode::Sin | UnaryOpcode::Cos | UnaryOpcode::Tan | UnaryOpcode::Asin | UnaryOpcode::Acos | UnaryOpcode::Atan
                    | UnaryOpcode::Exp | UnaryOpcode::Ln
            );
            for a in [Ex::L(Leaf::X), Ex::L(Leaf::C(0x40000000)), Ex::L(Leaf::C(0x80000000)), Ex::L(Leaf::C(0xbf800000))] {
                // folding a libm call on a constant cannot be judged against an
                // uninterpreted function
                if libm && matches!(a, Ex::L(Leaf::C(_))) {
                    continue;
                }
                cases.push(Ex::U(u.sem, Box::new(a)));
            }
            // unary of unary (e.g. neg(neg(x)), abs(neg(x)))
            for v in UNARY.iter() {
                cases.push(Ex::U(u.sem, Box::new(Ex::U(v.sem, Box::new(Ex::L(Leaf::X))))));
            }
        }
        for &b in &bins {
            for x in &atoms {
                for y in &atoms {
                    let both_const = matches!(x, Ex::L(Leaf::C(_))) && matches!(y, Ex::L(Leaf::C(_)));
                    if both_const && matches!(b, BinaryOpcode::Atan | BinaryOpcode::Mod) {
                        continue;
                    }
                    cases.push(Ex::B(b, Box::new(x.clone()), Box::new(y.clone())));
                }
            }
        }
    } else {
        // (nested mul/div make the FP queries undecidable within minutes: outside the claim)
        let inner_ops = [BinaryOpcode::Add, BinaryOpcode::Sub, BinaryOpcode::Min, BinaryOpcode::Max];
        let small: Vec<Ex> =
            vec![Ex::L(Leaf::Y), Ex::L(Leaf::X), Ex::L(Leaf::C(0)), Ex::L(Leaf::C(0x3f800000)), Ex::L(Leaf::C(0xbf800000)), Ex::L(Leaf::C(0x40000000))];
        for &o1 in &inner_ops {
            for b in &small {
                for side in 0..2 {
                    let inner = if side == 0 {
                        Ex::B(o1, Box::new(Ex::L(Leaf::X)), Box::new(b.clone()))
                    } else {
                        Ex::B(o1, Box::new(b.clone()), Box::new(Ex::L(Leaf::X)))
                    };
                    for &o2 in &bins[..8] {
                        for c in &small {
                            cases.push(Ex::B(o2, Box::new(inner.clone()), Box::new(c.clone())));
                            cases.push(Ex::B(o2, Box::new(c.clone()), Box::new(inner.clone())));
                        }
                        // the same subexpression on both sides
                        cases.push(Ex::B(o2, Box::new(inner.clone()), Box::new(inner.clone())));
                    }
                    for u in [UnaryOpcode::Neg, UnaryOpcode::Abs, UnaryOpcode::Square, UnaryOpcode::Recip, UnaryOpcode::Not] {
                        cases.push(Ex::U(u, Box::new(inner.clone())));
                    }
                }
            }
        }
    }
    for e in cases {
        id += 1;
        if stride > 1 && (id % stride) != (offset % stride) {
            continue;
        }
        if let Some(rid) = replay_id {
            if rid == id {
                let mut ctx = Context::new();
                let n = ex_build(&mut ctx, &e);
                for v in &replay_vecs {
                    let got = ctx.eval_xyz(n, v[0], v[1], 0.0).unwrap();
                    let (want, finite) = ex_eval(&e, v[0], v[1]);
                    let ok = !finite || got == want;
                    println!(
                        "{{\"ok\":{},\"x\":\"{}\",\"y\":\"{}\",\"context\":\"{}\",\"unsimplified\":\"{}\",\"finite\":{}}}",
                        ok, fmt_f32(v[0]), fmt_f32(v[1]), fmt_f32(got), fmt_f32(want), finite
                    );
                }
            }
            continue;
        }
        let r = std::panic::catch_unwind(std::panic::AssertUnwindSafe(|| {
            let mut ctx = Context::new();
            let n = ex_build(&mut ctx, &e);
            // building the same expression again must give the same node
            let n2 = ex_build(&mut ctx, &e);
            let (glines, groots) = dump_graph(&ctx, &[n]);
            (glines, groots[0], n == n2)
        }));
        let mut elines = vec![];
        let eroot = ex_dump(&e, &mut elines);
        match r {
            Ok((glines, groot, same)) => writeln!(
                out,
                "{{\"id\":{},\"expr\":{},\"expr_root\":{},\"graph\":{},\"root\":{},\"dedup\":{}}}",
                id,
                jstr_list(&elines),
                eroot,
                jstr_list(&glines),
                groot,
                same
            )
            .unwrap(),
            Err(p) => writeln!(out, "{{\"id\":{},\"expr\":{},\"expr_root\":{},\"panic\":\"{}\"}}", id, jstr_list(&elines), eroot, panic_msg(p)).unwrap(),
        }
    }
}


/// Evaluates the expression as written, operation by operation; also reports
/// whether every intermediate value was finite
fn ex_eval(e: &Ex, x: f32, y: f32) -> (f32, bool) {
    match e {
        Ex::L(Leaf::X) => (x, x.is_finite()),
        Ex::L(Leaf::Y) => (y, y.is_finite()),
        Ex::L(Leaf::Z) => (0.0, true),
        Ex::L(Leaf::C(b)) => (f32::from_bits(*b), f32::from_bits(*b).is_finite()),
        Ex::U(op, a) => {
            let (a, fa) = ex_eval(a, x, y);
            let v = op.eval(a);
            (v, fa && v.is_finite())
        }
        Ex::B(op, a, b) => {
            let (a, fa) = ex_eval(a, x, y);
            let (b, fb) = ex_eval(b, x, y);
            let v = op.eval(a, b);
            (v, fa && fb && v.is_finite())
        }
    }
}


/// Simplifies a fixed, larger function (12 live values, two choice clauses)
/// with the given workspace and returns its data for recycling as storage
fn dirty_history<const M: usize>(ws: &mut fidget_core::vm::VmWorkspace<M>) -> VmData<M> {
    let mut ctx = Context::new();
    let x = ctx.x();
    let y = ctx.y();
    let mut terms = vec![];
    for i in 0..6 {
        let a = ctx.mul(x, (i + 2) as f32).unwrap();
        let b = ctx.sub(y, (i + 1) as f32).unwrap();
        terms.push(ctx.min(a, b).unwrap());
    }
    let mut acc = terms[0];
    for t in &terms[1..] {
        acc = ctx.sub(acc, *t).unwrap();
    }
    let acc2 = ctx.max(acc, x).unwrap();
    let f = GenericVmFunction::<M>::new(&ctx, &[acc2, terms[3]]).unwrap();
    let trace: Vec<Choice> = (0..f.choice_count()).map(|i| if i % 3 == 0 { Choice::Left } else { Choice::Both }).collect();
    let child = f.simplify_with::<M>(&VmTrace::from(trace), Default::default(), ws).unwrap();
    child.recycle().unwrap()
}


/// Replay of a reuse finding through the public API: repeats the history of
/// `simplify_all` (workspace with a history, storage recycled from the previous
/// child) up to the target trace, then compares that child with the parent at
/// every given point whose real point trace is compatible with the target.
fn replay_reuse(p: &GenericVmFunction<3>, vecs: &[Vec<f32>], target: &str) {
    let k = p.choice_count();
    let mut ws = Default::default();
    let mut storage: Option<VmData<3>> = Some(dirty_history::<3>(&mut ws));
    let mut child = None;
    for t in all_traces(k) {
        let ts = trace_str(&t);
        let st = storage.take().unwrap_or_default();
        let r = std::panic::catch_unwind(std::panic::AssertUnwindSafe(|| p.simplify_with::<3>(&VmTrace::from(t.clone()), st, &mut ws)));
        match r {
            Ok(Ok(c)) => {
                if ts == target {
                    child = Some(c);
                    break;
                }
                storage = c.recycle();
            }
            _ => {
                if ts == target {
                    println!("{{\"ok\":false,\"trace\":\"{}\",\"panic\":\"simplify failed with reused objects\"}}", ts);
                    return;
                }
                ws = Default::default();
            }
        }
    }
    let Some(child) = child else {
        println!("{{\"ok\":true,\"note\":\"target trace not found\"}}");
        return;
    };
    let f = |v: &[f32]| v.iter().map(|x| fmt_f32(*x)).collect::<Vec<_>>().join(" ");
    for v in vecs {
        let mut args = vec![0.0f32; p.vars().len()];
        for (var, i) in p.vars().iter() {
            args[i] = match var {
                Var::X => v[0],
                Var::Y => v[1],
                _ => 0.0,
            };
        }
        let t = p.point_tape(Default::default());
        let mut e = GenericVmFunction::<3>::new_point_eval();
        let (o, tr) = e.eval(&t, &args).unwrap();
        let want = o.to_vec();
        let real = match tr {
            Some(t) => trace_str(t.as_slice()),
            None => "B".repeat(k),
        };
        if !real.chars().zip(target.chars()).all(|(r, t)| t == 'B' || t == r) {
            continue;
        }
        let r = std::panic::catch_unwind(std::panic::AssertUnwindSafe(|| {
            let t = child.point_tape(Default::default());
            let mut e = GenericVmFunction::<3>::new_point_eval();
            let (o, _) = e.eval(&t, &args).unwrap();
            o.to_vec()
        }));
        match r {
            Ok(got) => {
                let ok = got.len() == want.len() && got.iter().zip(&want).all(|(a, b)| same(*a, *b));
                println!("{{\"ok\":{},\"vars\":\"{}\",\"trace\":\"{}\",\"parent\":\"{}\",\"child_reused\":\"{}\"}}", ok, f(&args), target, f(&want), f(&got));
            }
            Err(pn) => println!("{{\"ok\":false,\"vars\":\"{}\",\"trace\":\"{}\",\"panic\":\"{}\"}}", f(&args), target, panic_msg(pn)),
        }
    }
}
