//! C13: builder scripts with axis remaps.  A script is executed through the
//! real `Tree` builder API (`remap_xyz`, `remap_affine`, operators) and
//! `Context::import`; the graph the `Context` ends up holding is dumped for the
//! SMT side, which interprets the same script as substitution.
//!
//! Script: statements separated by `;`, each defining tree number i (0-based):
//!   x | y | z | v <k> | c <f32 bits>
//!   u <UnaryOp> <a> | b <BinaryOp> <a> <b>
//!   rx <target> <x> <y> <z> | ra <target> <12 f32 bits, row-major 3x4>
//! The last statement is the root.
use crate::ctxgen::dump_graph;
use crate::panic_msg;
use fidget_core::context::{Context, Tree};
use fidget_core::var::Var;
use std::collections::HashMap;
use std::io::BufRead;

#[derive(Clone, Debug)]
enum S {
    X,
    Y,
    Z,
    V(usize),
    C(f32),
    U(String, usize),
    B(String, usize, usize),
    Rx(usize, usize, usize, usize),
    Ra(usize, [f32; 12]),
    /// a shape of the fidget-shapes library: name, tree arguments, f32 arguments
    Sh(String, Vec<usize>, Vec<f32>),
}

fn bits(s: &str) -> f32 {
    f32::from_bits(u32::from_str_radix(s.trim_start_matches("0x"), 16).unwrap())
}

fn parse(script: &str) -> Vec<S> {
    script
        .split(';')
        .map(|st| {
            let t: Vec<&str> = st.split_whitespace().collect();
            let n = |i: usize| t[i].parse::<usize>().unwrap();
            match t[0] {
                "x" => S::X,
                "y" => S::Y,
                "z" => S::Z,
                "v" => S::V(n(1)),
                "c" => S::C(bits(t[1])),
                "u" => S::U(t[1].to_string(), n(2)),
                "b" => S::B(t[1].to_string(), n(2), n(3)),
                "rx" => S::Rx(n(1), n(2), n(3), n(4)),
                "ra" => {
                    let mut m = [0f32; 12];
                    for i in 0..12 {
                        m[i] = bits(t[2 + i]);
                    }
                    S::Ra(n(1), m)
                }
                "sh" => {
                    // sh <Name> <number of tree arguments> <trees...> <f32 bits...>
                    let nt = n(2);
                    let trees = (0..nt).map(|i| n(3 + i)).collect();
                    let fl = t[3 + nt..].iter().map(|w| bits(w)).collect();
                    S::Sh(t[1].to_string(), trees, fl)
                }
                o => panic!("bad statement {o}"),
            }
        })
        .collect()
}

fn affine(m: &[f32; 12]) -> nalgebra::Affine3<f32> {
    let mat = nalgebra::Matrix4::new(
        m[0], m[1], m[2], m[3], m[4], m[5], m[6], m[7], m[8], m[9], m[10], m[11], 0.0, 0.0, 0.0, 1.0,
    );
    nalgebra::Affine3::from_matrix_unchecked(mat)
}

/// Runs the script through the public builder API
fn build(prog: &[S], vars: &mut HashMap<usize, Var>) -> Tree {
    let mut t: Vec<Tree> = vec![];
    for s in prog {
        let n = match s {
            S::X => Tree::x(),
            S::Y => Tree::y(),
            S::Z => Tree::z(),
            S::V(k) => Tree::from(*vars.entry(*k).or_insert_with(Var::new)),
            S::C(c) => Tree::constant(*c),
            S::U(op, a) => {
                let a = &t[*a];
                match op.as_str() {
                    "Neg" => a.neg(),
                    "Abs" => a.abs(),
                    "Sqrt" => a.sqrt(),
                    "Square" => a.square(),
                    "Sin" => a.sin(),
                    "Cos" => a.cos(),
                    "Exp" => a.exp(),
                    "Ln" => a.ln(),
                    "Recip" => a.recip(),
                    "Floor" => a.floor(),
                    o => panic!("unary {o}"),
                }
            }
            S::B(op, a, b) => {
                let (a, b) = (t[*a].clone(), t[*b].clone());
                match op.as_str() {
                    "Add" => a + b,
                    "Sub" => a - b,
                    "Mul" => a * b,
                    "Div" => a / b,
                    "Min" => a.min(b),
                    "Max" => a.max(b),
                    "Atan" => a.atan2(b),
                    "Compare" => a.compare(b),
                    "Mod" => a.modulo(b),
                    o => panic!("binary {o}"),
                }
            }
            S::Rx(tg, x, y, z) => t[*tg].remap_xyz(t[*x].clone(), t[*y].clone(), t[*z].clone()),
            S::Ra(tg, m) => t[*tg].remap_affine(affine(m)),
            S::Sh(name, tr, f) => {
                let args: Vec<Tree> = tr.iter().map(|i| t[*i].clone()).collect();
                crate::shapes::build_shape(name, &args, f)
            }
        };
        t.push(n);
    }
    t.pop().unwrap()
}

/// f64 reference: the script as substitution (the remapped coordinates are
/// computed explicitly, later remaps first)
fn reference(prog: &[S], id: usize, f: [f64; 3], vars: &[f64]) -> f64 {
    match &prog[id] {
        S::X => f[0],
        S::Y => f[1],
        S::Z => f[2],
        S::V(k) => vars[*k],
        S::C(c) => *c as f64,
        S::U(op, a) => {
            let a = reference(prog, *a, f, vars);
            match op.as_str() {
                "Neg" => -a,
                "Abs" => a.abs(),
                "Sqrt" => a.sqrt(),
                "Square" => a * a,
                "Sin" => a.sin(),
                "Cos" => a.cos(),
                "Exp" => a.exp(),
                "Ln" => a.ln(),
                "Recip" => 1.0 / a,
                "Floor" => a.floor(),
                o => panic!("unary {o}"),
            }
        }
        S::B(op, a, b) => {
            let a = reference(prog, *a, f, vars);
            let b = reference(prog, *b, f, vars);
            match op.as_str() {
                "Add" => a + b,
                "Sub" => a - b,
                "Mul" => a * b,
                "Div" => a / b,
                "Min" => a.min(b),
                "Max" => a.max(b),
                "Atan" => a.atan2(b),
                "Compare" => {
                    if a < b {
                        -1.0
                    } else if a > b {
                        1.0
                    } else {
                        0.0
                    }
                }
                "Mod" => a.rem_euclid(b),
                o => panic!("binary {o}"),
            }
        }
        S::Rx(t, x, y, z) => {
            let g = [reference(prog, *x, f, vars), reference(prog, *y, f, vars), reference(prog, *z, f, vars)];
            reference(prog, *t, g, vars)
        }
        // shapes have no f64 reference here: their specification lives on the SMT side
        S::Sh(..) => f64::NAN,
        S::Ra(t, m) => {
            let mut g = [0f64; 3];
            for i in 0..3 {
                g[i] = m[4 * i] as f64 * f[0] + m[4 * i + 1] as f64 * f[1] + m[4 * i + 2] as f64 * f[2] + m[4 * i + 3] as f64;
            }
            reference(prog, *t, g, vars)
        }
    }
}

pub fn mode_remap() {
    // stdin lines: <id>|<script>[|<point>;<point>...]   point = x,y,z,v0,v1,... (f32 bits)
    let stdin = std::io::stdin();
    for line in stdin.lock().lines() {
        let line = line.unwrap();
        let parts: Vec<&str> = line.split('|').collect();
        if parts.len() < 2 {
            continue;
        }
        let id = parts[0].trim().to_string();
        let script = parts[1].to_string();
        let points: Option<String> = parts.get(2).map(|s| s.to_string());
        let r = std::panic::catch_unwind(std::panic::AssertUnwindSafe(|| {
            let prog = parse(&script);
            let mut vars = HashMap::new();
            let tree = build(&prog, &mut vars);
            let mut ctx = Context::new();
            let node = ctx.import(&tree);
            let (mut lines, roots) = dump_graph(&ctx, &[node]);
            // script names for the generic variables
            for l in lines.iter_mut() {
                if let Some(name) = l.strip_prefix("in ").map(|s| s.to_string()) {
                    for (k, v) in vars.iter() {
                        if format!("{}", v) == name {
                            *l = format!("in v{}", k);
                        }
                    }
                }
            }
            let mut out = format!(
                "{{\"id\":\"{}\",\"graph\":[{}],\"root\":{}",
                id,
                lines.iter().map(|l| format!("\"{}\"", l)).collect::<Vec<_>>().join(","),
                roots[0]
            );
            if let Some(ps) = &points {
                let mut evals = vec![];
                for p in ps.split(';') {
                    let w: Vec<f32> = p.split(',').filter(|s| !s.trim().is_empty()).map(|s| bits(s.trim())).collect();
                    let mut m: HashMap<Var, f32> = [(Var::X, w[0]), (Var::Y, w[1]), (Var::Z, w[2])].into_iter().collect();
                    let mut vv = vec![0f64; 8];
                    for (k, v) in vars.iter() {
                        let val = w.get(3 + *k).copied().unwrap_or(0.0);
                        m.insert(*v, val);
                        vv[*k] = val as f64;
                    }
                    let got = ctx.eval(node, &m).unwrap();
                    let want = reference(&prog, prog.len() - 1, [w[0] as f64, w[1] as f64, w[2] as f64], &vv);
                    let tol = 1e-3 * (1.0 + want.abs());
                    let ok = if want.is_finite() && got.is_finite() {
                        (got as f64 - want).abs() <= tol
                    } else {
                        // not judged: the claim is about finite evaluations
                        true
                    };
                    evals.push(format!(
                        "{{\"point\":\"{}\",\"imported\":{:?},\"substitution\":{:?},\"ok\":{}}}",
                        p.trim(),
                        got as f64,
                        want,
                        ok
                    ));
                }
                out += &format!(",\"evals\":[{}]", evals.join(","));
            }
            out + "}"
        }));
        match r {
            Ok(s) => println!("{}", s.replace("NaN", "\"NaN\"").replace("inf", "\"inf\"").replace("-\"inf\"", "\"-inf\"")),
            Err(e) => println!("{{\"id\":\"{}\",\"panic\":\"{}\"}}", id, panic_msg(e).replace('"', "'")),
        }
    }
}
