//! Tables of opcode constructors and reference semantics.
//!
//! The driver cross-checks these tables against the variant lists parsed from
//! /repo/fidget-core/src/compiler/op.rs, so a new opcode without an entry is
//! reported as uncovered.
use fidget_core::compiler::{RegOp, SsaOp};
use fidget_core::context::{BinaryOpcode as B, UnaryOpcode as U};

pub type SsaUn = fn(u32, u32) -> SsaOp;
pub type RegUn = fn(u8, u8) -> RegOp;
pub type SsaImm = fn(u32, u32, f32) -> SsaOp;
pub type RegImm = fn(u8, u8, f32) -> RegOp;
pub type SsaBin = fn(u32, u32, u32) -> SsaOp;
pub type RegBin = fn(u8, u8, u8) -> RegOp;

pub struct UnOp {
    pub name: &'static str,
    pub ssa: SsaUn,
    pub reg: RegUn,
    pub sem: U,
}
pub struct ImmOp {
    pub name: &'static str,
    pub ssa: SsaImm,
    pub reg: RegImm,
    pub sem: B,
    /// true if the immediate is the left-hand operand
    pub imm_lhs: bool,
}
pub struct BinOp {
    pub name: &'static str,
    pub ssa: SsaBin,
    pub reg: RegBin,
    pub sem: B,
}

macro_rules! un {
    ($n:ident, $s:expr) => {
        UnOp { name: stringify!($n), ssa: SsaOp::$n, reg: RegOp::$n, sem: $s }
    };
}
macro_rules! imm {
    ($n:ident, $s:expr, $l:expr) => {
        ImmOp { name: stringify!($n), ssa: SsaOp::$n, reg: RegOp::$n, sem: $s, imm_lhs: $l }
    };
}
macro_rules! bin {
    ($n:ident, $s:expr) => {
        BinOp { name: stringify!($n), ssa: SsaOp::$n, reg: RegOp::$n, sem: $s }
    };
}

pub static UNARY: &[UnOp] = &[
    un!(NegReg, U::Neg),
    un!(AbsReg, U::Abs),
    un!(RecipReg, U::Recip),
    un!(SqrtReg, U::Sqrt),
    un!(SquareReg, U::Square),
    un!(FloorReg, U::Floor),
    un!(CeilReg, U::Ceil),
    un!(RoundReg, U::Round),
    un!(SinReg, U::Sin),
    un!(CosReg, U::Cos),
    un!(TanReg, U::Tan),
    un!(AsinReg, U::Asin),
    un!(AcosReg, U::Acos),
    un!(AtanReg, U::Atan),
    un!(ExpReg, U::Exp),
    un!(LnReg, U::Ln),
    un!(NotReg, U::Not),
    un!(RandReg, U::Rand),
];

pub static REGIMM: &[ImmOp] = &[
    imm!(AddRegImm, B::Add, false),
    imm!(MulRegImm, B::Mul, false),
    imm!(DivRegImm, B::Div, false),
    imm!(DivImmReg, B::Div, true),
    imm!(SubImmReg, B::Sub, true),
    imm!(SubRegImm, B::Sub, false),
    imm!(ModRegImm, B::Mod, false),
    imm!(AtanRegImm, B::Atan, false),
    imm!(CompareRegImm, B::Compare, false),
    imm!(MixRegImm, B::Mix, false),
    imm!(MinRegImm, B::Min, false),
    imm!(MaxRegImm, B::Max, false),
    imm!(AndRegImm, B::And, false),
    imm!(OrRegImm, B::Or, false),
    imm!(ModImmReg, B::Mod, true),
    imm!(AtanImmReg, B::Atan, true),
    imm!(CompareImmReg, B::Compare, true),
    imm!(MixImmReg, B::Mix, true),
];

pub static REGREG: &[BinOp] = &[
    bin!(AddRegReg, B::Add),
    bin!(MulRegReg, B::Mul),
    bin!(DivRegReg, B::Div),
    bin!(SubRegReg, B::Sub),
    bin!(CompareRegReg, B::Compare),
    bin!(AtanRegReg, B::Atan),
    bin!(MixRegReg, B::Mix),
    bin!(ModRegReg, B::Mod),
    bin!(MinRegReg, B::Min),
    bin!(MaxRegReg, B::Max),
    bin!(AndRegReg, B::And),
    bin!(OrRegReg, B::Or),
];

pub fn fmt_f32(v: f32) -> String {
    format!("0x{:08x}", v.to_bits())
}

/// Turns the `Debug` form `Name(a, b, c)` into `Name a b c`, with the f32
/// field (if any) re-printed as exact bits.  `{:?}` of an f32 round-trips
/// exactly through `str::parse::<f32>` (except for NaN payloads: `NaN` parses
/// to the canonical quiet NaN, which is the only NaN these tools emit).
pub fn fmt_ssa(op: &SsaOp) -> String {
    fmt_dbg(&format!("{op:?}"))
}
pub fn fmt_reg(op: &RegOp) -> String {
    fmt_dbg(&format!("{op:?}"))
}
fn fmt_dbg(s: &str) -> String {
    let (name, rest) = s.split_once('(').unwrap();
    let rest = rest.trim_end_matches(')');
    let mut fields: Vec<String> = rest.split(", ").map(|t| t.to_string()).collect();
    let has_imm = name == "CopyImm" || REGIMM.iter().any(|t| t.name == name);
    if has_imm {
        let n = fields.len();
        let v: f32 = fields[n - 1].parse().unwrap();
        fields[n - 1] = fmt_f32(v);
    }
    format!("{} {}", name, fields.join(" "))
}

pub fn parse_u(s: &str) -> u32 {
    if let Some(h) = s.strip_prefix("0x") {
        u32::from_str_radix(h, 16).unwrap()
    } else {
        s.parse().unwrap()
    }
}
pub fn parse_f(s: &str) -> f32 {
    f32::from_bits(parse_u(s))
}

pub fn parse_ssa(line: &str) -> SsaOp {
    let t: Vec<&str> = line.split_whitespace().collect();
    let n = t[0];
    match n {
        "Output" => return SsaOp::Output(parse_u(t[1]), parse_u(t[2])),
        "Input" => return SsaOp::Input(parse_u(t[1]), parse_u(t[2])),
        "CopyReg" => return SsaOp::CopyReg(parse_u(t[1]), parse_u(t[2])),
        "CopyImm" => return SsaOp::CopyImm(parse_u(t[1]), parse_f(t[2])),
        _ => (),
    }
    for o in UNARY {
        if o.name == n {
            return (o.ssa)(parse_u(t[1]), parse_u(t[2]));
        }
    }
    for o in REGIMM {
        if o.name == n {
            return (o.ssa)(parse_u(t[1]), parse_u(t[2]), parse_f(t[3]));
        }
    }
    for o in REGREG {
        if o.name == n {
            return (o.ssa)(parse_u(t[1]), parse_u(t[2]), parse_u(t[3]));
        }
    }
    panic!("unknown SSA op {line}");
}

pub fn parse_reg(line: &str) -> RegOp {
    let t: Vec<&str> = line.split_whitespace().collect();
    let n = t[0];
    let r = |s: &str| parse_u(s) as u8;
    match n {
        "Output" => return RegOp::Output(r(t[1]), parse_u(t[2])),
        "Input" => return RegOp::Input(r(t[1]), parse_u(t[2])),
        "CopyReg" => return RegOp::CopyReg(r(t[1]), r(t[2])),
        "CopyImm" => return RegOp::CopyImm(r(t[1]), parse_f(t[2])),
        "Load" => return RegOp::Load(r(t[1]), parse_u(t[2])),
        "Store" => return RegOp::Store(r(t[1]), parse_u(t[2])),
        _ => (),
    }
    for o in UNARY {
        if o.name == n {
            return (o.reg)(r(t[1]), r(t[2]));
        }
    }
    for o in REGIMM {
        if o.name == n {
            return (o.reg)(r(t[1]), r(t[2]), parse_f(t[3]));
        }
    }
    for o in REGREG {
        if o.name == n {
            return (o.reg)(r(t[1]), r(t[2]), r(t[3]));
        }
    }
    panic!("unknown reg op {line}");
}

/// Reference semantics of an SSA program: evaluated operation by operation
/// with the context opcode semantics (`BinaryOpcode::eval` etc.)
pub fn eval_ssa(tape: &[SsaOp], vars: &[f32], n_out: usize) -> Vec<f32> {
    let mut max = 0usize;
    for op in tape {
        if let Some(o) = op.output() {
            max = max.max(o as usize + 1);
        }
    }
    let mut v = vec![f32::NAN; max];
    let mut out = vec![f32::NAN; n_out];
    for op in tape.iter().rev() {
        let s = fmt_ssa(op);
        let t: Vec<&str> = s.split_whitespace().collect();
        let n = t[0];
        match n {
            "Output" => out[parse_u(t[2]) as usize] = v[parse_u(t[1]) as usize],
            "Input" => v[parse_u(t[1]) as usize] = vars[parse_u(t[2]) as usize],
            "CopyReg" => v[parse_u(t[1]) as usize] = v[parse_u(t[2]) as usize],
            "CopyImm" => v[parse_u(t[1]) as usize] = parse_f(t[2]),
            _ => {
                let o = parse_u(t[1]) as usize;
                let mut done = false;
                for u in UNARY {
                    if u.name == n {
                        v[o] = u.sem.eval(v[parse_u(t[2]) as usize]);
                        done = true;
                    }
                }
                for u in REGIMM {
                    if u.name == n {
                        let a = v[parse_u(t[2]) as usize];
                        let k = parse_f(t[3]);
                        v[o] = if u.imm_lhs { u.sem.eval(k, a) } else { u.sem.eval(a, k) };
                        done = true;
                    }
                }
                for u in REGREG {
                    if u.name == n {
                        v[o] = u.sem.eval(v[parse_u(t[2]) as usize], v[parse_u(t[3]) as usize]);
                        done = true;
                    }
                }
                assert!(done, "unknown op {s}");
            }
        }
    }
    out
}
