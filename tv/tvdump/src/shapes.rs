//! C16: builds the shapes of the fidget-shapes library through their public
//! structs and `Tree::from`, for the `sh` statement of the remap scripts.
use fidget_core::context::Tree;
use fidget_shapes::types::{Axis, Plane, Vec2, Vec3};
use fidget_shapes::*;

fn axis(name: &str, f: &[f32]) -> (Axis, usize) {
    // axis selector encoded in the shape name suffix: `@X`, `@Y`, `@Z` (the named
    // constants) or `@V` (normalised from the first three floats)
    match name {
        "X" => (Axis::X, 0),
        "Y" => (Axis::Y, 0),
        "Z" => (Axis::Z, 0),
        "V" => (Axis::try_from(Vec3::new(f[0], f[1], f[2])).expect("axis"), 3),
        o => panic!("axis {o}"),
    }
}

pub fn build_shape(full: &str, t: &[Tree], f: &[f32]) -> Tree {
    let (name, sel) = match full.split_once('@') {
        Some((a, b)) => (a, b),
        None => (full, ""),
    };
    match name {
        "Circle" => Circle { center: Vec2::new(f[0], f[1]), radius: f[2] }.into(),
        "Rectangle" => Rectangle { lower: Vec2::new(f[0], f[1]), upper: Vec2::new(f[2], f[3]) }.into(),
        "Sphere" => Sphere { center: Vec3::new(f[0], f[1], f[2]), radius: f[3] }.into(),
        "Box" => fidget_shapes::Box { lower: Vec3::new(f[0], f[1], f[2]), upper: Vec3::new(f[3], f[4], f[5]) }.into(),
        "Union" => Union { input: t.to_vec() }.into(),
        "Intersection" => Intersection { input: t.to_vec() }.into(),
        "Inverse" => Inverse { shape: t[0].clone() }.into(),
        "Difference" => Difference { shape: t[0].clone(), cutout: t[1].clone() }.into(),
        "Blend" => Blend { a: t[0].clone(), b: t[1].clone(), radius: f[0] }.into(),
        "Move" => Move { shape: t[0].clone(), offset: Vec3::new(f[0], f[1], f[2]) }.into(),
        "Scale" => Scale { shape: t[0].clone(), scale: Vec3::new(f[0], f[1], f[2]) }.into(),
        "ScaleUniform" => ScaleUniform { shape: t[0].clone(), scale: f[0] }.into(),
        "Reflect" => {
            let (a, k) = axis(sel, f);
            Reflect { shape: t[0].clone(), plane: Plane { axis: a, offset: f[k] } }.into()
        }
        "ReflectPlane" => {
            let plane = match sel {
                "XY" => Plane::XY,
                "YZ" => Plane::YZ,
                "ZX" => Plane::ZX,
                o => panic!("plane {o}"),
            };
            Reflect { shape: t[0].clone(), plane }.into()
        }
        "ReflectX" => ReflectX { shape: t[0].clone(), offset: f[0] }.into(),
        "ReflectY" => ReflectY { shape: t[0].clone(), offset: f[0] }.into(),
        "ReflectZ" => ReflectZ { shape: t[0].clone(), offset: f[0] }.into(),
        "ReflectXY" => ReflectXY { shape: t[0].clone(), offset: f[0] }.into(),
        "Rotate" => {
            let (a, k) = axis(sel, f);
            Rotate { shape: t[0].clone(), axis: a, angle: f[k], center: Vec3::new(f[k + 1], f[k + 2], f[k + 3]) }.into()
        }
        "RotateX" => RotateX { shape: t[0].clone(), angle: f[0], center: Vec3::new(f[1], f[2], f[3]) }.into(),
        "RotateY" => RotateY { shape: t[0].clone(), angle: f[0], center: Vec3::new(f[1], f[2], f[3]) }.into(),
        "RotateZ" => RotateZ { shape: t[0].clone(), angle: f[0], center: Vec3::new(f[1], f[2], f[3]) }.into(),
        "RevolveY" => RevolveY { shape: t[0].clone(), offset: f[0] }.into(),
        "ExtrudeZ" => ExtrudeZ { shape: t[0].clone(), lower: f[0], upper: f[1] }.into(),
        "LoftZ" => LoftZ { a: t[0].clone(), b: t[1].clone(), lower: f[0], upper: f[1] }.into(),
        "RepeatX" => RepeatX { shape: t[0].clone(), radius: f[0], offset: f[1] }.into(),
        "Plane" => {
            let plane = match sel {
                "XY" => Plane::XY,
                "YZ" => Plane::YZ,
                "ZX" => Plane::ZX,
                _ => {
                    let (a, k) = axis(sel, f);
                    Plane { axis: a, offset: f[k] }
                }
            };
            Tree::from(plane)
        }
        o => panic!("unknown shape {o}"),
    }
}
