//! jit: assembles register tapes with the *real* x86-64 assemblers of
//! fidget-jit and prints the machine code (for the lifter), identifying every
//! out-of-line callback by evaluating it natively.
use crate::ops::*;
use crate::{jstr_list, varmap};
use fidget_core::compiler::{RegOp, RegTape, SsaTape};
use fidget_core::eval::{BulkEvaluator, Function, TracingEvaluator};
use fidget_core::types::{Grad, Interval};
use fidget_core::vm::{GenericVmFunction, VmData};
use fidget_jit::JitFunction;
use std::io::BufRead;

fn same(a: f32, b: f32) -> bool {
    (a.is_nan() && b.is_nan()) || a.to_bits() == b.to_bits()
}

const SAMPLES: [(f32, f32); 8] =
    [(0.3, 0.7), (-1.25, 2.5), (0.9, -0.4), (2.0, 3.0), (-0.5, -0.25), (10.0, 0.1), (f32::NAN, 1.0), (0.0, 1.0)];

fn identify_f32(addr: usize) -> String {
    let f: extern "sysv64" fn(f32, f32) -> f32 = unsafe { std::mem::transmute(addr) };
    let cands: [(&str, fn(f32, f32) -> f32); 10] = [
        ("sin", |a, _| a.sin()),
        ("cos", |a, _| a.cos()),
        ("tan", |a, _| a.tan()),
        ("asin", |a, _| a.asin()),
        ("acos", |a, _| a.acos()),
        ("atan", |a, _| a.atan()),
        ("exp", |a, _| a.exp()),
        ("ln", |a, _| a.ln()),
        ("atan2", |a, b| a.atan2(b)),
        ("rem_euclid", |a, b| a.rem_euclid(b)),
    ];
    for (name, g) in cands {
        if SAMPLES.iter().all(|&(a, b)| same(f(a, b), g(a, b))) {
            return name.to_string();
        }
    }
    "unknown".to_string()
}

fn isame(a: Interval, b: Interval) -> bool {
    same(a.lower(), b.lower()) && same(a.upper(), b.upper())
}

fn identify_interval(addr: usize) -> String {
    let f: extern "sysv64" fn(Interval, Interval) -> Interval = unsafe { std::mem::transmute(addr) };
    let cands: [(&str, fn(Interval, Interval) -> Interval); 10] = [
        ("sin", |a, _| a.sin()),
        ("cos", |a, _| a.cos()),
        ("tan", |a, _| a.tan()),
        ("asin", |a, _| a.asin()),
        ("acos", |a, _| a.acos()),
        ("atan", |a, _| a.atan()),
        ("exp", |a, _| a.exp()),
        ("ln", |a, _| a.ln()),
        ("atan2", |a, b| a.atan2(b)),
        ("rem_euclid", |a, b| a.rem_euclid(b)),
    ];
    let ivs = [
        (Interval::new(0.1, 0.3), Interval::new(0.5, 0.75)),
        (Interval::new(-1.0, 0.5), Interval::new(1.0, 2.0)),
        (Interval::new(0.25, 0.25), Interval::new(3.0, 3.0)),
        (Interval::new(2.0, 9.0), Interval::new(-2.0, -1.0)),
        (Interval::new(-0.75, -0.5), Interval::new(0.25, 4.0)),
    ];
    for (name, g) in cands {
        if ivs.iter().all(|&(a, b)| isame(f(a, b), g(a, b))) {
            return name.to_string();
        }
    }
    "unknown".to_string()
}

/// Finds `movabs rsi|r15, imm64` and returns the immediates
fn find_call_targets(code: &[u8]) -> Vec<(usize, usize)> {
    let mut out = vec![];
    let mut i = 0;
    while i + 10 <= code.len() {
        let is_rsi = code[i] == 0x48 && code[i + 1] == 0xbe;
        let is_r15 = code[i] == 0x49 && code[i + 1] == 0xbf;
        if is_rsi || is_r15 {
            let mut b = [0u8; 8];
            b.copy_from_slice(&code[i + 2..i + 10]);
            out.push((i, u64::from_le_bytes(b) as usize));
            i += 10;
        } else {
            i += 1;
        }
    }
    out
}

pub fn build(line: &str) -> (usize, JitFunction, usize, usize) {
    let parts: Vec<&str> = line.split('|').collect();
    let head: Vec<usize> = parts[0].split_whitespace().map(|s| s.parse().unwrap()).collect();
    let (id, _n, slots, nvars, nout) = (head[0], head[1], head[2], head[3], head[4]);
    let mut reg_ops: Vec<RegOp> = parts[2].split(';').filter(|s| !s.trim().is_empty()).map(parse_reg).collect();
    let cc = reg_ops
        .iter()
        .filter(|o| {
            let s = format!("{o:?}");
            s.starts_with("Min") || s.starts_with("Max") || s.starts_with("And") || s.starts_with("Or")
        })
        .count();
    reg_ops.reverse();
    let ssa = SsaTape { tape: vec![], choice_count: cc, output_count: nout };
    let reg = RegTape::verif_from_ops(reg_ops, slots as u32);
    let d = VmData::<12>::verif_from_parts(ssa, reg, varmap(nvars));
    (id, JitFunction::from(GenericVmFunction::<12>::from(d)), nvars, nout)
}

fn code_len(code: &[u8]) -> usize {
    let mut n = code.len();
    while n > 0 && code[n - 1] == 0 {
        n -= 1;
    }
    n
}

pub fn mode_jit(args: &[String]) {
    let kind = args[0].as_str();
    let stdin = std::io::stdin();
    for line in stdin.lock().lines() {
        let line = line.unwrap();
        if line.trim().is_empty() {
            continue;
        }
        let r = std::panic::catch_unwind(|| {
            let (id, f, _nv, _no) = build(&line);
            let (code, idf): (Vec<u8>, fn(usize) -> String) = match kind {
                "point" => {
                    let t = f.point_tape(Default::default());
                    let c = t.verif_code();
                    (c[..code_len(c)].to_vec(), identify_f32)
                }
                "fslice" => {
                    let t = f.float_slice_tape(Default::default());
                    let c = t.verif_code();
                    (c[..code_len(c)].to_vec(), identify_f32)
                }
                "interval" => {
                    let t = f.interval_tape(Default::default());
                    let c = t.verif_code();
                    (c[..code_len(c)].to_vec(), identify_interval)
                }
                "gslice" => {
                    let t = f.grad_slice_tape(Default::default());
                    let c = t.verif_code();
                    (c[..code_len(c)].to_vec(), |_| "unidentified-grad".to_string())
                }
                _ => panic!("unknown kind"),
            };
            let calls: Vec<String> =
                find_call_targets(&code).iter().map(|&(off, addr)| format!("{}:0x{:x}:{}", off, addr, idf(addr))).collect();
            let hex: String = code.iter().map(|b| format!("{:02x}", b)).collect();
            format!("{{\"id\":{},\"kind\":\"{}\",\"code\":\"{}\",\"calls\":{}}}", id, kind, hex, jstr_list(&calls))
        });
        match r {
            Ok(s) => println!("{}", s),
            Err(e) => println!("{{\"panic\":\"{}\"}}", crate::panic_msg(e)),
        }
    }
}

/// Runs the real JIT function natively (lifter validation / replay):
/// stdin lines: `<request>|<hex vars>,<hex vars>,...`
/// point: prints outputs, choices, simplify per vector
pub fn mode_jitrun(args: &[String]) {
    let kind = args[0].as_str();
    let stdin = std::io::stdin();
    for line in stdin.lock().lines() {
        let line = line.unwrap();
        if line.trim().is_empty() {
            continue;
        }
        let parts: Vec<&str> = line.split('|').collect();
        let (id, f, nvars, _nout) = build(&line);
        let fh = |v: &[f32]| v.iter().map(|x| fmt_f32(*x)).collect::<Vec<_>>().join(" ");
        for vec in parts[3].split(',') {
            let vals: Vec<f32> = vec.split_whitespace().map(parse_f).collect();
            match kind {
                "point" => {
                    let t = f.point_tape(Default::default());
                    let mut e = JitFunction::new_point_eval();
                    let (o, tr) = e.eval(&t, &vals[..nvars.max(0)]).unwrap();
                    let tr: String = match tr {
                        Some(t) => t.as_slice().iter().map(|c| format!("{}", *c as u8)).collect(),
                        None => "none".to_string(),
                    };
                    // the interpreter on the same tape
                    let vf: &GenericVmFunction<12> = (&f).into();
                    let vt = vf.point_tape(Default::default());
                    let mut ve = GenericVmFunction::<12>::new_point_eval();
                    let (vo, vtr) = ve.eval(&vt, &vals[..nvars.max(0)]).unwrap();
                    let vtr: String = match vtr {
                        Some(t) => t.as_slice().iter().map(|c| format!("{}", *c as u8)).collect(),
                        None => "none".to_string(),
                    };
                    println!("{{\"id\":{},\"vars\":\"{}\",\"out\":\"{}\",\"trace\":\"{}\",\"vm_out\":\"{}\",\"vm_trace\":\"{}\"}}", id, fh(&vals), fh(o), tr, fh(vo), vtr);
                }
                "interval" => {
                    let iv: Vec<Interval> = vals.chunks(2).map(|c| Interval::new(c[0], c[1])).collect();
                    let t = f.interval_tape(Default::default());
                    let mut e = JitFunction::new_interval_eval();
                    let (o, tr) = e.eval(&t, &iv[..nvars]).unwrap();
                    let tr: String = match tr {
                        Some(t) => t.as_slice().iter().map(|c| format!("{}", *c as u8)).collect(),
                        None => "none".to_string(),
                    };
                    let flat: Vec<f32> = o.iter().flat_map(|i| [i.lower(), i.upper()]).collect();
                    let vf: &GenericVmFunction<12> = (&f).into();
                    let vt = vf.interval_tape(Default::default());
                    let mut ve = GenericVmFunction::<12>::new_interval_eval();
                    let (vo, vtr) = ve.eval(&vt, &iv[..nvars]).unwrap();
                    let vflat: Vec<f32> = vo.iter().flat_map(|i| [i.lower(), i.upper()]).collect();
                    let vtr: String = match vtr {
                        Some(t) => t.as_slice().iter().map(|c| format!("{}", *c as u8)).collect(),
                        None => "none".to_string(),
                    };
                    println!("{{\"id\":{},\"vars\":\"{}\",\"out\":\"{}\",\"trace\":\"{}\",\"vm_out\":\"{}\",\"vm_trace\":\"{}\"}}", id, fh(&vals), fh(&flat), tr, fh(&vflat), vtr);
                }
                "fslice" => {
                    // vals: nvars columns of 8 lanes each
                    let cols: Vec<Vec<f32>> = vals.chunks(8).map(|c| c.to_vec()).collect();
                    let t = f.float_slice_tape(Default::default());
                    let mut e = JitFunction::new_float_slice_eval();
                    let b = e.eval(&t, &cols[..nvars]).unwrap();
                    let mut flat = vec![];
                    for i in 0..b.len() {
                        flat.extend_from_slice(&b[i]);
                    }
                    let vf: &GenericVmFunction<12> = (&f).into();
                    let vt = vf.float_slice_tape(Default::default());
                    let mut ve = GenericVmFunction::<12>::new_float_slice_eval();
                    let vb = ve.eval(&vt, &cols[..nvars]).unwrap();
                    let mut vflat = vec![];
                    for i in 0..vb.len() {
                        vflat.extend_from_slice(&vb[i]);
                    }
                    println!("{{\"id\":{},\"vars\":\"{}\",\"out\":\"{}\",\"vm_out\":\"{}\"}}", id, fh(&vals), fh(&flat), fh(&vflat));
                }
                _ => panic!("unsupported kind"),
            }
        }
    }
}
