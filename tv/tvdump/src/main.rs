//! tvdump: runs the *real* fidget compiler passes natively on exhaustively
//! enumerated bounded program spaces and prints (input, output) pairs as JSON
//! lines for the SMT translation validator (`/verif/lib/tv_engine.py`).
mod ops;
mod ctxgen;
mod jit;
mod remap;
mod shapes;

use fidget_core::compiler::{RegOp, RegTape, SsaOp, SsaTape};
use fidget_core::eval::{BulkEvaluator, Function, TracingEvaluator};
use fidget_core::var::{Var, VarMap};
use fidget_core::vm::{GenericVmFunction, VmData};
use ops::*;
use std::io::{BufRead, Write};

pub fn jstr_list(v: &[String]) -> String {
    let q: Vec<String> = v.iter().map(|s| format!("\"{}\"", s)).collect();
    format!("[{}]", q.join(","))
}

pub fn quiet_panics() {
    std::panic::set_hook(Box::new(|_| {}));
}

pub fn panic_msg(e: Box<dyn std::any::Any + Send>) -> String {
    let s = if let Some(s) = e.downcast_ref::<&str>() {
        s.to_string()
    } else if let Some(s) = e.downcast_ref::<String>() {
        s.clone()
    } else {
        "panic".to_string()
    };
    s.replace('"', "'").replace('\n', " ")
}

/// Runs the real register allocator with budget `n`
pub fn alloc_n(ssa: &SsaTape, n: usize) -> Result<RegTape, String> {
    let f = || match n {
        1 => RegTape::new::<1>(ssa),
        2 => RegTape::new::<2>(ssa),
        3 => RegTape::new::<3>(ssa),
        4 => RegTape::new::<4>(ssa),
        5 => RegTape::new::<5>(ssa),
        8 => RegTape::new::<8>(ssa),
        12 => RegTape::new::<12>(ssa),
        255 => RegTape::new::<255>(ssa),
        _ => panic!("unsupported N"),
    };
    std::panic::catch_unwind(std::panic::AssertUnwindSafe(f)).map_err(panic_msg)
}

pub fn varmap(n: usize) -> VarMap {
    let mut m = VarMap::new();
    let base = [Var::X, Var::Y, Var::Z];
    for i in 0..n {
        if i < 3 {
            m.insert(base[i]);
        } else {
            m.insert(Var::new());
        }
    }
    m
}

// ---------------------------------------------------------------------------
// Program skeletons for the allocator

#[derive(Copy, Clone, Debug)]
enum Shape {
    Leaf,
    Un(usize),
    Bin(usize, usize),
}

struct Prog {
    tape: Vec<SsaOp>, // stored order (root first)
    n_vars: usize,
    n_out: usize,
    choice_count: usize,
}

fn label(shapes: &[Shape], outputs: &[usize], salt: usize) -> Prog {
    let mut fwd: Vec<SsaOp> = vec![];
    let mut leaf = 0usize;
    let mut n_vars = 0usize;
    let mut choice_count = 0;
    for (i, s) in shapes.iter().enumerate() {
        let o = i as u32;
        let op = match *s {
            Shape::Leaf => {
                let k = leaf;
                leaf += 1;
                if (k + salt) % 3 == 2 {
                    SsaOp::CopyImm(o, k as f32 + 0.5)
                } else {
                    let v = n_vars;
                    n_vars += 1;
                    SsaOp::Input(o, v as u32)
                }
            }
            Shape::Un(a) => match (i + a + salt) % 4 {
                0 => SsaOp::NegReg(o, a as u32),
                1 => SsaOp::AddRegImm(o, a as u32, i as f32 + 0.25),
                2 => SsaOp::SubImmReg(o, a as u32, i as f32 + 0.75),
                _ => SsaOp::SqrtReg(o, a as u32),
            },
            Shape::Bin(a, b) => match (i + a + 2 * b + salt) % 4 {
                0 => SsaOp::SubRegReg(o, a as u32, b as u32),
                1 => SsaOp::DivRegReg(o, a as u32, b as u32),
                2 => {
                    choice_count += 1;
                    SsaOp::MinRegReg(o, a as u32, b as u32)
                }
                _ => SsaOp::AtanRegReg(o, a as u32, b as u32),
            },
        };
        fwd.push(op);
    }
    let mut tape = vec![];
    for (k, &o) in outputs.iter().enumerate() {
        tape.push(SsaOp::Output(o as u32, k as u32));
    }
    for op in fwd.into_iter().rev() {
        tape.push(op);
    }
    Prog { tape, n_vars, n_out: outputs.len(), choice_count }
}

fn emit_alloc(id: &mut u64, p: &Prog, ns: &[usize], set: &str, out: &mut impl Write, spill_only: bool) {
    let ssa = SsaTape { tape: p.tape.clone(), choice_count: p.choice_count, output_count: p.n_out };
    let ssa_s: Vec<String> = p.tape.iter().map(fmt_ssa).collect();
    for &n in ns {
        *id += 1;
        match alloc_n(&ssa, n) {
            Ok(reg) => {
                if spill_only && !reg.iter().any(|o| matches!(o, RegOp::Load(..) | RegOp::Store(..))) {
                    continue;
                }
                // evaluation order
                let reg_s: Vec<String> = reg.iter().rev().map(fmt_reg).collect();
                writeln!(
                    out,
                    "{{\"id\":{},\"set\":\"{}\",\"n\":{},\"nvars\":{},\"nout\":{},\"ssa\":{},\"reg\":{},\"slots\":{}}}",
                    id, set, n, p.n_vars, p.n_out, jstr_list(&ssa_s), jstr_list(&reg_s), reg.slot_count()
                )
                .unwrap();
            }
            Err(msg) => {
                writeln!(
                    out,
                    "{{\"id\":{},\"set\":\"{}\",\"n\":{},\"nvars\":{},\"nout\":{},\"ssa\":{},\"reg\":null,\"panic\":\"{}\"}}",
                    id, set, n, p.n_vars, p.n_out, jstr_list(&ssa_s), msg
                )
                .unwrap();
            }
        }
    }
}

/// Enumerates all skeletons with exactly `k` value-defining ops
fn enum_skeletons(k: usize, f: &mut impl FnMut(&[Shape])) {
    fn rec(k: usize, cur: &mut Vec<Shape>, f: &mut impl FnMut(&[Shape])) {
        let i = cur.len();
        if i == k {
            f(cur);
            return;
        }
        cur.push(Shape::Leaf);
        rec(k, cur, f);
        cur.pop();
        for a in 0..i {
            cur.push(Shape::Un(a));
            rec(k, cur, f);
            cur.pop();
        }
        for a in 0..i {
            for b in 0..i {
                cur.push(Shape::Bin(a, b));
                rec(k, cur, f);
                cur.pop();
            }
        }
    }
    rec(k, &mut vec![], f);
}

fn unused(shapes: &[Shape]) -> Vec<usize> {
    let mut used = vec![false; shapes.len()];
    for s in shapes {
        match *s {
            Shape::Leaf => (),
            Shape::Un(a) => used[a] = true,
            Shape::Bin(a, b) => {
                used[a] = true;
                used[b] = true;
            }
        }
    }
    (0..shapes.len()).filter(|&i| !used[i]).collect()
}

fn mode_alloc(args: &[String]) {
    // alloc <kmin> <kmax> <n,n,..> <stride> <offset>
    let kmin: usize = args[0].parse().unwrap();
    let kmax: usize = args[1].parse().unwrap();
    let ns: Vec<usize> = args[2].split(',').map(|s| s.parse().unwrap()).collect();
    let stride: u64 = args.get(3).map(|s| s.parse().unwrap()).unwrap_or(1);
    let offset: u64 = args.get(4).map(|s| s.parse().unwrap()).unwrap_or(0);
    let spill_only = args.get(5).map(|s| s == "spill").unwrap_or(false);
    let stdout = std::io::stdout();
    let mut out = std::io::BufWriter::new(stdout.lock());
    let mut id = 0u64;
    let mut count = 0u64;
    for k in kmin..=kmax {
        let set = format!("alloc-k{}", k);
        let mut f = |shapes: &[Shape]| {
            let u = unused(shapes);
            if u.is_empty() || u.len() > 2 {
                return;
            }
            count += 1;
            // Full enumeration up to K=5; beyond that, a deterministic
            // 1-in-`stride` sample selected by `offset` (the seed)
            if k > 5 && stride > 1 && (count % stride) != (offset % stride) {
                return;
            }
            let salt = (count % 4) as usize;
            let mut outs = u.clone();
            outs.reverse(); // last value first
            let p = label(shapes, &outs, salt);
            emit_alloc(&mut id, &p, &ns, &set, &mut out, spill_only);
            if u.len() == 1 && k <= 5 {
                // a second output that aliases an already-used value, and a
                // duplicate of the root
                for extra in 0..shapes.len() {
                    let p = label(shapes, &[u[0], extra], salt);
                    emit_alloc(&mut id, &p, &ns, &set, &mut out, spill_only);
                }
            }
        };
        enum_skeletons(k, &mut f);
    }
}

const IMMS: [u32; 6] = [0x3fc00000, 0x80000000, 0x7fc00000, 0x7f800000, 0x00000001, 0xc0490fdb];

fn variant_programs() -> Vec<Prog> {
    let mut v = vec![];
    let mk = |fwd: Vec<SsaOp>, outs: Vec<u32>, n_vars: usize| {
        let mut tape = vec![];
        for (k, &o) in outs.iter().enumerate() {
            tape.push(SsaOp::Output(o, k as u32));
        }
        let cc = fwd.iter().filter(|o| o.has_choice()).count();
        for op in fwd.into_iter().rev() {
            tape.push(op);
        }
        Prog { tape, n_vars, n_out: outs.len(), choice_count: cc }
    };
    for u in UNARY {
        v.push(mk(vec![SsaOp::Input(0, 0), (u.ssa)(1, 0)], vec![1], 1));
        v.push(mk(vec![SsaOp::Input(0, 0), (u.ssa)(1, 0)], vec![1, 0], 1));
        v.push(mk(vec![SsaOp::Input(0, 0), (u.ssa)(1, 0), SsaOp::SubRegReg(2, 1, 0)], vec![2], 1));
        v.push(mk(vec![SsaOp::CopyImm(0, 2.5), (u.ssa)(1, 0)], vec![1], 0));
    }
    v.push(mk(vec![SsaOp::Input(0, 0), SsaOp::CopyReg(1, 0)], vec![1], 1));
    v.push(mk(vec![SsaOp::Input(0, 0), SsaOp::CopyReg(1, 0)], vec![1, 0], 1));
    v.push(mk(vec![SsaOp::CopyImm(0, -0.0)], vec![0], 0));
    v.push(mk(vec![SsaOp::CopyImm(0, f32::NAN), SsaOp::Input(1, 0)], vec![0, 1, 0], 1));
    for (j, u) in REGIMM.iter().enumerate() {
        for (q, &bits) in IMMS.iter().enumerate() {
            if q != j % IMMS.len() && q != 0 {
                continue;
            }
            let imm = f32::from_bits(bits);
            v.push(mk(vec![SsaOp::Input(0, 0), (u.ssa)(1, 0, imm)], vec![1], 1));
            v.push(mk(vec![SsaOp::Input(0, 0), (u.ssa)(1, 0, imm)], vec![1, 0], 1));
            v.push(mk(
                vec![SsaOp::Input(0, 0), SsaOp::Input(1, 1), (u.ssa)(2, 1, imm), SsaOp::DivRegReg(3, 2, 0)],
                vec![3],
                2,
            ));
        }
    }
    for u in REGREG {
        v.push(mk(vec![SsaOp::Input(0, 0), SsaOp::Input(1, 1), (u.ssa)(2, 0, 1)], vec![2], 2));
        v.push(mk(vec![SsaOp::Input(0, 0), SsaOp::Input(1, 1), (u.ssa)(2, 1, 0)], vec![2], 2));
        v.push(mk(vec![SsaOp::Input(0, 0), (u.ssa)(1, 0, 0)], vec![1], 1));
        v.push(mk(vec![SsaOp::Input(0, 0), SsaOp::Input(1, 1), (u.ssa)(2, 0, 1)], vec![2, 0, 1], 2));
        v.push(mk(
            vec![SsaOp::Input(0, 0), SsaOp::Input(1, 1), (u.ssa)(2, 0, 1), (u.ssa)(3, 2, 0)],
            vec![3, 2],
            2,
        ));
    }
    v
}

fn mode_variants(args: &[String]) {
    let ns: Vec<usize> = args[0].split(',').map(|s| s.parse().unwrap()).collect();
    let stdout = std::io::stdout();
    let mut out = std::io::BufWriter::new(stdout.lock());
    let mut id = 1_000_000_000u64;
    for p in variant_programs() {
        emit_alloc(&mut id, &p, &ns, "variants", &mut out, false);
    }
}

// ---------------------------------------------------------------------------
// Bytecode

fn bytecode_n(ssa: SsaTape, reg: RegTape, vars: VarMap, n: usize) -> Result<Result<(Vec<u32>, u8, u32), String>, String> {
    macro_rules! go {
        ($n:expr) => {{
            let d = VmData::<$n>::verif_from_parts(ssa, reg, vars);
            fidget_bytecode::Bytecode::new(&d)
                .map(|b| (b.data().to_vec(), b.reg_count(), b.mem_count()))
                .map_err(|e| format!("{e:?}"))
        }};
    }
    std::panic::catch_unwind(std::panic::AssertUnwindSafe(move || match n {
        3 => go!(3),
        4 => go!(4),
        5 => go!(5),
        8 => go!(8),
        255 => go!(255),
        _ => panic!("unsupported N"),
    }))
    .map_err(panic_msg)
}

fn mode_bytecode(_args: &[String]) {
    // reads alloc JSON lines' essentials from stdin:  one request per line:
    //   <n> <slots> <nvars> | ssa op;op;.. | reg op;op;..   (reg in evaluation order)
    let stdin = std::io::stdin();
    let stdout = std::io::stdout();
    let mut out = std::io::BufWriter::new(stdout.lock());
    // opcode table
    let table: Vec<String> = fidget_bytecode::iter_ops().map(|(name, i)| format!("{}={}", name, i)).collect();
    writeln!(out, "{{\"optable\":{}}}", jstr_list(&table)).unwrap();
    for line in stdin.lock().lines() {
        let line = line.unwrap();
        let parts: Vec<&str> = line.split('|').collect();
        let head: Vec<usize> = parts[0].split_whitespace().map(|s| s.parse().unwrap()).collect();
        let (id, n, slots, nvars, nout) = (head[0], head[1], head[2], head[3], head[4]);
        let ssa_ops: Vec<SsaOp> = parts[1].split(';').filter(|s| !s.trim().is_empty()).map(parse_ssa).collect();
        let mut reg_ops: Vec<RegOp> = parts[2].split(';').filter(|s| !s.trim().is_empty()).map(parse_reg).collect();
        reg_ops.reverse();
        let cc = ssa_ops.iter().filter(|o| o.has_choice()).count();
        let ssa = SsaTape { tape: ssa_ops, choice_count: cc, output_count: nout };
        let reg = RegTape::verif_from_ops(reg_ops, slots as u32);
        match bytecode_n(ssa, reg, varmap(nvars), n) {
            Ok(Ok((words, rc, mc))) => {
                let w: Vec<String> = words.iter().map(|w| format!("{}", w)).collect();
                writeln!(out, "{{\"id\":{},\"words\":[{}],\"reg_count\":{},\"mem_count\":{}}}", id, w.join(","), rc, mc).unwrap();
            }
            Ok(Err(e)) => writeln!(out, "{{\"id\":{},\"error\":\"{}\"}}", id, e).unwrap(),
            Err(p) => writeln!(out, "{{\"id\":{},\"panic\":\"{}\"}}", id, p).unwrap(),
        }
    }
}

// ---------------------------------------------------------------------------
// Replay: evaluate a (ssa, reg) pair on concrete inputs with the reference
// semantics and with the real VM evaluators

fn eval_vm<const N: usize>(ssa: SsaTape, reg: RegTape, nvars: usize, vars: &[f32]) -> (Vec<f32>, Vec<f32>) {
    let d = VmData::<N>::verif_from_parts(ssa, reg, varmap(nvars));
    let f = GenericVmFunction::<N>::from(d);
    let t = f.point_tape(Default::default());
    let mut e = <GenericVmFunction<N> as Function>::PointEval::default();
    let (o, _) = e.eval(&t, vars).unwrap();
    let o = o.to_vec();
    let t = f.float_slice_tape(Default::default());
    let mut e = <GenericVmFunction<N> as Function>::FloatSliceEval::default();
    let cols: Vec<Vec<f32>> = vars.iter().map(|&v| vec![v, v, v]).collect();
    let b = e.eval(&t, &cols).unwrap();
    let mut o2 = vec![];
    for i in 0..b.len() {
        o2.push(b[i][1]);
    }
    (o, o2)
}

fn mode_eval(_args: &[String]) {
    // stdin: same request line format as `bytecode`, followed by `| hex hex ..` input vectors separated by ','
    let stdin = std::io::stdin();
    for line in stdin.lock().lines() {
        let line = line.unwrap();
        let parts: Vec<&str> = line.split('|').collect();
        let head: Vec<usize> = parts[0].split_whitespace().map(|s| s.parse().unwrap()).collect();
        let (id, n, slots, nvars, nout) = (head[0], head[1], head[2], head[3], head[4]);
        let ssa_ops: Vec<SsaOp> = parts[1].split(';').filter(|s| !s.trim().is_empty()).map(parse_ssa).collect();
        let mut reg_ops: Vec<RegOp> = parts[2].split(';').filter(|s| !s.trim().is_empty()).map(parse_reg).collect();
        reg_ops.reverse();
        let cc = ssa_ops.iter().filter(|o| o.has_choice()).count();
        for vec in parts[3].split(',') {
            let vars: Vec<f32> = vec.split_whitespace().map(parse_f).collect();
            if vars.len() < nvars {
                continue;
            }
            let want = eval_ssa(&ssa_ops, &vars, nout);
            let ssa = SsaTape { tape: ssa_ops.clone(), choice_count: cc, output_count: nout };
            let reg = RegTape::verif_from_ops(reg_ops.clone(), slots as u32);
            let r = std::panic::catch_unwind(std::panic::AssertUnwindSafe(|| match n {
                1 => eval_vm::<1>(ssa, reg, nvars, &vars),
                2 => eval_vm::<2>(ssa, reg, nvars, &vars),
                3 => eval_vm::<3>(ssa, reg, nvars, &vars),
                4 => eval_vm::<4>(ssa, reg, nvars, &vars),
                5 => eval_vm::<5>(ssa, reg, nvars, &vars),
                8 => eval_vm::<8>(ssa, reg, nvars, &vars),
                12 => eval_vm::<12>(ssa, reg, nvars, &vars),
                _ => eval_vm::<255>(ssa, reg, nvars, &vars),
            }));
            let f = |v: &[f32]| v.iter().map(|x| fmt_f32(*x)).collect::<Vec<_>>().join(" ");
            match r {
                Ok((p, s)) => {
                    let same = |a: &[f32], b: &[f32]| {
                        a.len() == b.len()
                            && a.iter().zip(b).all(|(x, y)| (x.is_nan() && y.is_nan()) || x.to_bits() == y.to_bits())
                    };
                    let ok = same(&want, &p) && same(&want, &s);
                    println!(
                        "{{\"id\":{},\"ok\":{},\"vars\":\"{}\",\"want\":\"{}\",\"point\":\"{}\",\"slice\":\"{}\"}}",
                        id, ok, f(&vars), f(&want), f(&p), f(&s)
                    );
                }
                Err(e) => println!("{{\"id\":{},\"ok\":false,\"vars\":\"{}\",\"panic\":\"{}\"}}", id, f(&vars), panic_msg(e)),
            }
        }
    }
}

fn main() {
    quiet_panics();
    let args: Vec<String> = std::env::args().collect();
    match args[1].as_str() {
        "alloc" => mode_alloc(&args[2..]),
        "variants" => mode_variants(&args[2..]),
        "bytecode" => mode_bytecode(&args[2..]),
        "eval" => mode_eval(&args[2..]),
        "optable" => {
            // opcode names of both enums as the tool knows them
            let mut names: Vec<String> = vec!["Output".into(), "Input".into(), "CopyReg".into(), "CopyImm".into()];
            names.extend(UNARY.iter().map(|u| u.name.to_string()));
            names.extend(REGIMM.iter().map(|u| u.name.to_string()));
            names.extend(REGREG.iter().map(|u| u.name.to_string()));
            println!("{}", jstr_list(&names));
        }
        "jit" => jit::mode_jit(&args[2..]),
        "jitrun" => jit::mode_jitrun(&args[2..]),
        "remap" => remap::mode_remap(),
        m if ctxgen::dispatch(m, &args[2..]) => (),
        m => panic!("unknown mode {m}"),
    }
}
